"""Shared argument families (DESIGN.md section 5).

All families are lists of canonical argument strings (Polish notation,
``conclusion:premise:premise``) so that replays are self-contained.

X      the repository's own example arguments (pytableaux.examples)
M      modal shapes (depth <= 2), incl. two necessity-type nodes with unequal
       application counts and serial dead ends
Q      first-order shapes with identity / existence, alone and under a modal
       operator
P(s)   every propositional argument with <= s connective occurrences over
       <= 3 letters and <= 2 premises (generated)
R      seeded random shapes
"""
from __future__ import annotations

import itertools
import random

LETTERS = 'abc'
UNARY = 'NT'
BINARY = 'KACEUB'

M = [
    'Ma:LMa', 'La:LLa', 'LLa:La', 'MMa:Ma', 'Ma:MMa', 'LMa:MLa', 'MLa:LMa',
    'b:La:LMb', 'Mb:LCab:Ma', 'LAab:ALaLb', 'KMaMb:MKab', 'MAab:AMaMb',
    'NMa:LNa', 'LKab:KLaLb', 'ALaLb:LAab', 'a:MLa', 'LMLa:MLa', 'MKaNa',
    'NLKaNa', 'LCab:CLaLb', 'CLaLb:LCab', 'Lb:LCab:La', 'MNa:NLa', 'LLMa:LMa:LLb',
    'b:La:Lb:MNa', 'LMa:Lb', 'MLMa:a', 'KLaMNa', 'ALaMNa', 'CMaLMa', 'ULaMa', 'UMaLMa',
    'LULaa', 'MTa:Ma', 'LNNa:La', 'NMNLa:La',
    # several possibility premises (world-count limits, serial dead ends)
    'e:LLa:Mb:Mc:Md', 'e:LLa:Mb:Mc:Md:Me', 'd:La:Mb:Mc', 'c:LMa:Mb', 'Mc:LLa:Mb',
    # box-diamond patterns whose proofs run close to the projected world maximum
    'Lc:LKMaLc', 'Mb:LMa:Ma:b', 'LLc:LKMaLc', 'Mb:LMa:b',
    # a proof that ends with exactly the projected number of worlds and needs a reflexive arrow
    # at a late world (see also families/boundary.py)
    'c:LMa:MKLdNd:Me',
]

Q = [
    'SxFx:VxFx', 'VxFx:SxFx', 'Fm:VxFx', 'SxFx:Fm', 'VxGx:VxCFxGx:VxFx', 'SxGx:VxCFxGx:SxFx',
    'SxKFxGx:KSxFxSxGx', 'KSxFxSxGx:SxKFxGx', 'VxAFxGx:AVxFxVxGx', 'SxVyHxy:VySxHxy',
    'VySxHxy:SxVyHxy', 'NSxFx:VxNFx', 'a:NFn:Gm:SxFx', 'a:NFm:Gn:SxFx', 'Fn:Imn:Fm', 'Fm:Inm:Fn',
    'Imn:Inm', 'Imo:Imn:Ino', 'Imm', 'VxIxx', 'SxIxm', 'NImn:Fm:NFn', 'Jm', 'VxJx', 'SxJx:Fm',
    'Gn:Imn:Fm', 'Hnm:Imn:Hmn', 'Hnn:Imn:Hmm', 'VxCFxGx:VxCFxHx:VxCHxGx',
    'SxNFx:NVxFx', 'NVxFx:SxNFx', 'VxVyHxy:VyVxHxy', 'SxSyHxy:SySxHyx', 'CFmSxFx', 'CVxFxFm',
    'SxCFxVyFy', 'AVxFxSxNFx', 'Fm:VxCGxFx:Gm', 'KFmGm:VxKFxGx',
    # a universal whose own sentence introduces the constant it must be instantiated with
    'Hmm:VxHxm', 'SzHzz:SyVxHxy', 'Hnm:VxHxm:Gn', 'Hmn:VxVyHxy',
    # the last unsubscripted constant on the branch, then two witnesses (the counter of fresh
    # constants wraps to the first subscript)
    'Hs:SxKFxGs:SxNFx', 'Fs:SxGx:SxNGx:Gs',
]

MQ = [
    'MSxFx:SxMFx', 'SxMFx:MSxFx', 'LVxFx:VxLFx', 'VxLFx:LVxFx', 'Fn:Imn:MFm', 'MFn:Imn:MFm',
    'LFn:Imn:LFm', 'MFn:LImn:MFm', 'Fn:MImn:Fm', 'LImn:Imn', 'MSxFx:MFm', 'LFm:LVxFx',
    'SxLFx:LSxFx', 'MVxFx:VxMFx', 'LJm', 'MNJm', 'Fn:Imn:LFm',
]


def examples():
    from pytableaux.examples import arguments
    return [a.argstr() for a in arguments.values()]


def _sentences(size, letters):
    'all Polish strings with exactly `size` connective occurrences'
    if size == 0:
        return list(letters)
    out = []
    for u in UNARY:
        for s in _sentences(size - 1, letters):
            out.append(u + s)
    for b in BINARY:
        for k in range(size):
            for l in _sentences(k, letters):
                for r in _sentences(size - 1 - k, letters):
                    out.append(b + l + r)
    return out


def prop(size, letters=LETTERS, max_premises=2):
    """Every propositional argument with exactly `size` connectives in total,
    up to the naming of letters (the first occurrences are a, b, c in order)."""
    seen = set()
    out = []
    for nprem in range(max_premises + 1):
        for split in _compositions(size, nprem + 1):
            pools = [_sentences(k, letters) for k in split]
            for combo in itertools.product(*pools):
                s = ':'.join(combo)
                order = [ch for ch in s if ch in letters]
                first = list(dict.fromkeys(order))
                if first != list(letters[:len(first)]):
                    continue
                if s not in seen:
                    seen.add(s)
                    out.append(s)
    return out


def depth1_pairs():
    '''premise -> conclusion pairs over the sentences {x, ~x, x op y, ~(x op y), *x, ~*x}
    of two letters (directed: negated binary against negated binary is size 4)'''
    sents = ['a', 'b', 'Na', 'Nb', 'Ta', 'NTa']
    for op in BINARY:
        sents += [f'{op}ab', f'N{op}ab']
    out = list(sents)
    for c in sents:
        for p in sents:
            out.append(f'{c}:{p}')
    return out


def side_premise():
    '''a binary sentence or its negation as premise, a literal over one of its letters as second
    premise, an unrelated letter or an operand as conclusion (the rule for the compound premise
    is applied next to something that decides one operand)'''
    out = []
    for op in BINARY:
        for neg in ('', 'N'):
            for side in ('a', 'b', 'Na', 'Nb'):
                for concl in ('c', 'b', 'a'):
                    out.append(f'{concl}:{neg}{op}ab:{side}')
    return out


def _compositions(total, parts):
    if parts == 1:
        yield (total,)
        return
    for k in range(total + 1):
        for rest in _compositions(total - k, parts - 1):
            yield (k,) + rest


def random_args(seed, n, modal=True, quantified=True, size=5):
    rng = random.Random(seed)
    consts, varz, preds = 'mno', 'xy', 'FG'

    def sent(depth, bound):
        r = rng.random()
        if depth <= 0 or r < 0.25:
            if quantified and rng.random() < 0.5:
                p = rng.choice(preds)
                pool = list(consts) + list(bound)
                return p + rng.choice(pool)
            return rng.choice(LETTERS)
        if r < 0.45:
            return rng.choice('N' + ('ML' if modal else '')) + sent(depth - 1, bound)
        if r < 0.6 and quantified:
            v = rng.choice([x for x in varz if x not in bound] or ['z'])
            if v in bound:
                return sent(depth - 1, bound)
            body = sent(depth - 1, bound + [v])
            if v not in body:
                body = 'K' + body + rng.choice(preds) + v
            return rng.choice('VS') + v + body
        return rng.choice(BINARY) + sent(depth - 1, bound) + sent(depth - 1, bound)
    out = []
    for _ in range(n):
        nprem = rng.choice((0, 1, 1, 2))
        parts = [sent(rng.randint(1, 3), []) for _ in range(nprem + 1)]
        out.append(':'.join(parts))
    return out


def vocabulary_ok(logic, argstr):
    'Is the argument inside what the logic interprets (for shape selection)?'
    return True


def select(pool, n, seed, salt=''):
    'deterministic pseudo-random subset of size <= n'
    if n is None or len(pool) <= n:
        return list(pool)
    rng = random.Random(f'{seed}:{salt}')
    idx = sorted(rng.sample(range(len(pool)), n))
    return [pool[i] for i in idx]
