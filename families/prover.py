"""Real prover runs and their classification, shared by the run-level checks
(C01, C02, C03, C09, C10, C11)."""
from __future__ import annotations

import json
import os

from engine.tabutil import reset_order

ROOT = os.path.dirname(os.path.dirname(os.path.abspath(__file__)))


def build(logic, argstr, seed=0, step_loop=False, **opts):
    from pytableaux.lang import Argument
    from pytableaux.proof import Tableau
    reset_order(seed)
    arg = argstr if not isinstance(argstr, str) else Argument(argstr)
    tab = Tableau(logic, arg, **opts)
    if step_loop:
        while tab.step() is not None:
            pass
    else:
        tab.build()
    return tab


def has_quit_flag(branch):
    for n in branch:
        if n.get('flag') == 'quit' or n.get('is_flag') and n.get('flag') not in (None, 'closure'):
            return True
    return False


def outcome(tab):
    """'valid' | 'invalid' (some open branch without a limit flag) | 'limit'
    (premature, or every open branch carries a world/constant limit flag)."""
    if tab.premature or not tab.finished:
        return 'limit'
    if tab.valid:
        return 'valid'
    free = [b for b in tab.open if not has_quit_flag(b)]
    return 'invalid' if free else 'limit'


def free_open_branches(tab):
    return [b for b in tab.open if not has_quit_flag(b)]


def rules_applied(tab):
    return sorted({e.rule.name for e in tab.history})


_KNOWN_INEXACT = None


def known_inexact_rules():
    """{logic: set(rule names)} from the C04 known findings: runs that applied
    such a rule are attributed to that finding (root cause: the rule)."""
    global _KNOWN_INEXACT
    if _KNOWN_INEXACT is None:
        out = {}
        path = os.path.join(ROOT, 'known_findings.jsonl')
        if os.path.exists(path):
            for line in open(path):
                line = line.strip()
                if not line.startswith('{'):
                    continue
                d = json.loads(line)
                if d.get('property') == 'C04' and d.get('key', '').count('|') == 2:
                    _, logic, rule = d['key'].split('|')
                    out.setdefault(logic, set()).add(rule)
        _KNOWN_INEXACT = out
    return _KNOWN_INEXACT


def attribute(prop, logic, argstr, tab_or_rules, what=''):
    """Violation key for a run-level failure.  If the run applied a rule that is
    a listed C04 known finding for this logic, the key names that rule (the
    call site at fault); otherwise it names the argument."""
    rules = tab_or_rules if isinstance(tab_or_rules, (list, set, tuple)) else rules_applied(tab_or_rules)
    bad = sorted(set(rules) & known_inexact_rules().get(logic, set()))
    if bad:
        return f'{prop}|{logic}|inexact-rule:{bad[0]}'
    return f'{prop}|{logic}|{argstr}' + (f'|{what}' if what else '')
