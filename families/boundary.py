"""Coverage-directed argument family B (boundary): arguments whose real proof
ends with some branch holding *exactly* the projected maximum number of worlds
(`MaxWorlds.is_reached` but not `is_exceeded`) or of constants, without a quit
flag.  Selected per logic by running the real tableau on seeded candidates;
nothing is assumed about which shapes get there.
"""
from __future__ import annotations

import random

TEMPLATES = ['LM{0}', 'MKL{1}N{1}', 'M{2}', 'LL{0}', 'MM{0}', 'MLM{0}', 'ML{1}', 'LKM{0}L{1}', 'MKM{0}M{1}',
             'LAM{0}M{1}', 'M{0}', 'LCM{0}M{1}', 'MNL{2}', 'NL{0}', 'NLM{1}', 'L{2}']
QTEMPLATES = ['VxSyHxy', 'SxF{0}x' if False else 'SxFx', 'VxCFxSyGy', 'SxKFxGx', 'VxVyHxy', 'SxSyHxy', 'VxAFxGx',
              'NVxFx', 'SxNGx', 'Fm', 'Gn', 'Hmn', 'VxSyKHxyFy']


def candidates(seed, n, quantified=False):
    rng = random.Random(f'boundary:{seed}:{quantified}')
    out = []
    for _ in range(n):
        k = rng.choice((2, 3, 3, 4))
        if quantified:
            prems = [rng.choice(QTEMPLATES) for _ in range(k)]
            concl = rng.choice(['Fm', 'Gn', 'SxGx', 'a'])
        else:
            letters = rng.sample('abcde', 3)
            prems = [rng.choice(TEMPLATES).format(*letters) for _ in range(k)]
            concl = rng.choice('abcde')
        s = ':'.join([concl] + prems)
        if s not in out:
            out.append(s)
    return out


def exactly_at_limit(tab):
    'does some branch sit exactly at the projected world / constant maximum, with no quit flag anywhere?'
    from pytableaux.proof.helpers import MaxConsts, MaxWorlds
    from families import prover
    if any(prover.has_quit_flag(b) for b in tab):
        return None
    for rule in tab.rules:
        for H in (MaxWorlds, MaxConsts):
            try:
                h = rule[H]
            except Exception:  # noqa: BLE001
                continue
            for b in tab:
                try:
                    if H is MaxWorlds:
                        if h.is_reached(b) and not h.is_exceeded(b):
                            return 'worlds'
                    else:
                        for w in (b.worlds or [None]):
                            if h.is_reached(b, w) and not h.is_exceeded(b, w):
                                return 'constants'
                except Exception:  # noqa: BLE001
                    continue
    return None


def select(logic_name, seed, want=3, tries=120):
    from pytableaux.lang import Argument
    from pytableaux.logics import registry
    from families import prover
    logic = registry(logic_name)
    out = []
    kinds = ([False] if logic.Meta.modal else []) + ([True] if logic.Meta.quantified else [])
    for quantified in kinds:
        got = 0
        for argstr in candidates(seed, tries, quantified):
            try:
                tab = prover.build(logic_name, Argument(argstr), seed, max_steps=300)
            except Exception:  # noqa: BLE001
                continue
            if tab.premature:
                continue
            if exactly_at_limit(tab):
                out.append(argstr)
                got += 1
                if got >= want:
                    break
    return out
