"""Observation of a real tableau run: event monitors and the bookkeeping
invariants of property C16, written against the public API only."""
from __future__ import annotations

from pytableaux.proof import Tableau


class Broken(Exception):
    'A bookkeeping invariant does not hold.'


def is_true(x):
    return bool(x)


class Monitor:
    """Attach to a tableau *before* the trunk is built (auto_build_trunk=False)
    or right after construction; records per-step facts through events."""

    def __init__(self, tab: Tableau):
        self.tab = tab
        self.lens = {}            # branch -> length seen at the last step
        self.steps = 0
        self.errors = []
        E = Tableau.Events
        tab.on(E.AFTER_BRANCH_ADD, self.after_branch_add)
        tab.on(E.AFTER_NODE_ADD, self.after_node_add)
        tab.on(E.AFTER_RULE_APPLY, self.after_rule_apply)
        tab.on(E.AFTER_BRANCH_CLOSE, self.after_branch_close)
        self.closed = set()
        self.parent_nodes = {}

    def fail(self, msg):
        self.errors.append(msg)

    def after_branch_add(self, branch):
        p = branch.parent
        if p is not None:
            if list(branch)[:len(p)] != list(p) or len(branch) < len(p):
                self.fail('a new branch does not extend its parent\'s nodes')
            if p not in self.lens and p not in list(self.tab):
                self.fail('parent of a new branch is not on the tableau')
        self.lens[branch] = len(branch)

    def after_node_add(self, node, branch):
        if branch in self.closed:
            self.fail('a closed branch received a node')
        step = getattr(node, 'step', None)
        cur = self.tab.current_step
        if step is None or is_true(step > cur):
            self.fail('node step number is missing or in the future')

    def after_branch_close(self, branch):
        self.closed.add(branch)
        if not branch.closed:
            self.fail('AFTER_BRANCH_CLOSE for a branch that is not closed')
        # the tableau announces the closure after updating its own books
        if any(b is branch for b in self.tab.open):
            self.fail('the tableau announced a closed branch that its open view still lists')

    def after_rule_apply(self, target):
        self.steps += 1
        tab = self.tab
        if len(tab.history) != self.steps:
            self.fail(f'history has {len(tab.history)} entries after {self.steps} rule applications')
        else:
            entry = tab.history[-1]
            if entry.target is not target or entry.rule is not target.rule:
                self.fail('history entry does not record the applied rule and target')
        for b in tab:
            old = self.lens.get(b)
            if old is not None and len(b) < old:
                self.fail('a branch shrank')
            self.lens[b] = len(b)
        want_open = [b for b in tab if not b.closed]
        if list(tab.open) != want_open:
            self.fail('open view differs from the unclosed branches')


def trunk_expectation(tab):
    'Nodes the trunk must consist of, by the documented construction.'
    from spec import tables as spec
    arg = tab.argument
    info = spec.logic_info(tab.logic.Meta.name)
    w = 0 if info['frame'] is not None else None
    out = []
    if info['classical']:
        for p in arg.premises:
            out.append(dict(sentence=p, world=w, designated=None))
        out.append(dict(sentence=~arg.conclusion, world=w, designated=None))
    else:
        for p in arg.premises:
            out.append(dict(sentence=p, world=w, designated=True))
        out.append(dict(sentence=arg.conclusion, world=w, designated=False))
    return out


def check_trunk(tab):
    if not len(tab):
        raise Broken('no trunk branch')
    root = tab[0].origin
    want = trunk_expectation(tab)
    nodes = [n for n in list(root)[:len(want)]]
    if len(nodes) < len(want):
        raise Broken('trunk is shorter than premises + conclusion')
    for n, w in zip(nodes, want):
        if n.get('sentence') != w['sentence'] or n.get('world') != w['world'] \
                or n.get('designated') != w['designated']:
            raise Broken(f'trunk node {dict(n)} differs from the expected {w}')


def node_stat(tab, branch, node, key, own_only=False):
    """Statistics of a node are recorded on the branch that received it (or
    ticked it); a child branch inherits the records of its ancestors.  Unset
    defaults (enum flags / None) count as "not recorded here"."""
    b = branch
    while b is not None:
        try:
            v = tab.stat(b, node, key)
        except KeyError:
            v = None
        if isinstance(v, int) and not hasattr(v, 'name'):
            return v
        if own_only:
            return None
        b = b.parent
    return None


def check_steps(tab):
    'recorded step numbers: non-decreasing along a branch, never in the future'
    K = Tableau.StatKey
    cur = tab.current_step
    for b in tab:
        last = 0
        for n in b:
            st = node_stat(tab, b, n, K.STEP_ADDED)
            if st is None:
                raise Broken('no addition step recorded for a node on its branch or an ancestor')
            if is_true(st > cur):
                raise Broken('STEP_ADDED in the future')
            if is_true(st < last):
                raise Broken('STEP_ADDED decreases along a branch')
            last = st
            own = node_stat(tab, b, n, K.STEP_TICKED, own_only=True)
            if own is not None:
                if is_true(own > cur) or is_true(own < st):
                    raise Broken('STEP_TICKED before the node was added or in the future')
                if not b.is_ticked(n):
                    raise Broken('tick recorded on a branch where the node is not ticked')
            elif b.is_ticked(n):
                inherited = node_stat(tab, b, n, K.STEP_TICKED)
                if inherited is None:
                    raise Broken('ticked node without a recorded tick step')
                if is_true(inherited > cur) or is_true(inherited < st):
                    raise Broken('inherited STEP_TICKED before the node was added or in the future')
        if b.closed:
            sc = tab.stat(b, K.STEP_CLOSED)
            if not isinstance(sc, int) or hasattr(sc, 'name'):
                raise Broken('closed branch without a recorded closing step')
            if is_true(sc > cur) or is_true(sc < last):
                raise Broken('STEP_CLOSED before the last node or in the future')
        added = tab.stat(b, K.STEP_ADDED)
        if is_true(added > cur):
            raise Broken('branch STEP_ADDED in the future')


def check_tree(tab):
    tree = tab.tree
    if tree is None:
        raise Broken('finished tableau has no tree')
    leaves = []

    def walk(t, prefix):
        path = prefix + list(t.nodes)
        if not t.children:
            if not t.leaf:
                raise Broken('childless structure not marked as leaf')
            leaves.append((t, path))
            desc = 0
            width = 1
        else:
            if t.leaf:
                raise Broken('structure with children marked as leaf')
            desc = 0
            width = 0
            for ch in t.children:
                d, w = walk(ch, path)
                desc += d + len(ch.nodes)
                width += w
        if t.descendant_node_count != desc:
            raise Broken(f'descendant_node_count {t.descendant_node_count} != recomputed {desc}')
        if t.structure_node_count != desc + len(t.nodes):
            raise Broken('structure_node_count differs from recomputed')
        if t.width != width:
            raise Broken(f'width {t.width} != recomputed {width}')
        return desc, width
    walk(tree, [])
    if len(leaves) != len(tab):
        raise Broken(f'{len(leaves)} tree leaves for {len(tab)} branches')
    by_id = {id(b): b for b in tab}
    seen = set()
    for t, path in leaves:
        b = by_id.get(t.branch_id)
        if b is None or t.branch_id in seen:
            raise Broken('leaf does not identify a unique branch')
        seen.add(t.branch_id)
        if path != list(b):
            raise Broken('root-to-leaf node path differs from the branch')
        if t.closed != b.closed or t.open == b.closed:
            raise Broken('leaf open/closed flag differs from the branch')
    distinct = len({id(n) for b in tab for n in b})
    if tree.distinct_nodes != distinct:
        raise Broken(f'distinct_nodes {tree.distinct_nodes} != {distinct}')
    if tree.width != len(tab):
        raise Broken('tree width differs from the number of branches')


def check_stats(tab):
    st = tab.stats
    nopen = sum(1 for b in tab if not b.closed)
    want = dict(branches=len(tab), open_branches=nopen, closed_branches=len(tab) - nopen,
                steps=len(tab.history))
    for k, v in want.items():
        if st.get(k) != v:
            raise Broken(f'stats[{k}] = {st.get(k)} but observable count is {v}')
    if tab.tree is not None and st.get('distinct_nodes') != tab.tree.distinct_nodes:
        raise Broken('stats distinct_nodes differs from the tree')
    word = ('Valid' if tab.valid else 'Invalid' if tab.invalid else
            'Completed' if tab.completed else 'Unfinished')
    if st.get('result') != word:
        raise Broken(f'stats result {st.get("result")} != {word}')
    if list(tab.open) != [b for b in tab if not b.closed]:
        raise Broken('open view differs from the unclosed branches')


def check_all(tab, monitor=None):
    if monitor is not None and monitor.errors:
        raise Broken(monitor.errors[0])
    check_trunk(tab)
    check_steps(tab)
    if tab.finished:
        check_tree(tab)
        check_stats(tab)
