"""Solver queries about whole arguments and branches in the specification
semantics (used by C01, C02)."""
from __future__ import annotations

import z3

from engine.semz3 import Interp
from spec import evaluator as speceval


def countermodel(S, arg, stats, W=3, K=3):
    """Is there an interpretation (<= W worlds, <= K elements, frame condition
    of the logic) designating every premise and not the conclusion at world 0?
    Returns ('unsat'|'sat'|'unknown', interpretation-json|None)."""
    quantified = any(s.quantifiers or s.predicates for s in arg)
    I = Interp(S, 'spec', W=W if S.modal else 1, K=K if quantified else 1)
    terms = [I.des(p, 0) for p in arg.premises] + [z3.Not(I.des(arg.conclusion, 0))]
    s = z3.Solver()
    s.set('timeout', 60000)
    s.add(*I.constraints())
    s.add(*terms)
    r = stats.check(s)
    if r == z3.unsat:
        return 'unsat', None
    if r == z3.sat:
        return 'sat', speceval.interp_to_json(speceval.interp_from_z3(I, s.model()))
    return 'unknown', None


def check_countermodel(logic_name, arg, interp_json):
    'plain-Python confirmation of a solver countermodel'
    interp = speceval.interp_from_json(interp_json)
    ev = speceval.Evaluator(logic_name, interp)
    if not ev.frame_ok():
        return False
    return all(ev.designated(p, 0) for p in arg.premises) and not ev.designated(arg.conclusion, 0)


def branch_satisfiable(S, branch, stats, Wcap=4, Kcap=4):
    """Is there any interpretation satisfying all nodes of the branch?  Worlds
    and constants on the branch are names with arbitrary denotations.
    Returns ('sat'|'unsat'|'unknown'|'skipped', interp-json|None)."""
    nworlds = len(branch.worlds) or 1
    nconst = len(branch.constants) or 1
    if nworlds > Wcap or nconst > Kcap:
        return 'skipped', None
    I = Interp(S, 'spec', W=max(1, nworlds) if S.modal else 1, K=max(1, nconst))
    nodes = [n for n in branch]
    term = I.sat_nodes(nodes)
    s = z3.Solver()
    s.set('timeout', 60000)
    s.add(*I.constraints())
    s.add(term)
    r = stats.check(s)
    if r == z3.sat:
        return 'sat', speceval.interp_to_json(speceval.interp_from_z3(I, s.model()))
    if r == z3.unsat:
        return 'unsat', None
    return 'unknown', None


NB_MARK = ' [evaluated through an FDE-family table cell at (N,B)]'


def through_nb_cell(logic, model, s, kw):
    '''FDE family only: does the library's evaluation of `s` apply a binary connective (or a
    generalised one, for quantifiers / modal operators) to one operand valued N and one valued B?
    Those are the cells where the library's tables (linear order) differ from the lattice its
    rules are exact for -- the C07 known finding.'''
    from spec import tables as spec
    try:
        if spec.logic_info(logic.Meta.name)['base'] != 'FDE':
            return False
    except Exception:  # noqa: BLE001
        return False

    def val(x, kw_):
        try:
            return str(model.value_of(x, **kw_))
        except Exception:  # noqa: BLE001
            return None

    def walk(x, kw_):
        tn = type(x).__name__
        if tn == 'Operated':
            ops = list(x.operands)
            if x.operator.name in ('Possibility', 'Necessity'):
                w = kw_.get('world', 0)
                succ = sorted(model.R[w]) if w in model.R else []
                vals = {val(ops[0], {'world': v}) for v in succ}
                if {'N', 'B'} <= vals:
                    return True
                return any(walk(ops[0], {'world': v}) for v in succ)
            if len(ops) == 2 and {val(ops[0], kw_), val(ops[1], kw_)} == {'N', 'B'}:
                return True
            return any(walk(o, kw_) for o in ops)
        if tn == 'Quantified':
            insts = [c >> x for c in sorted(model.constants)]
            if {'N', 'B'} <= {val(i, kw_) for i in insts}:
                return True
            return any(walk(i, kw_) for i in insts)
        return False
    return walk(s, kw)


def library_model_check(tab, branch):
    """The library's own model of an open branch evaluated with the library's
    evaluator on every node; returns a list of problems."""
    problems = []
    logic = tab.logic
    model = getattr(branch, 'model', None)
    if model is None:
        try:
            model = logic.Model()
            model.read_branch(branch)
        except Exception as e:  # noqa: BLE001
            return [f'model builder raised {type(e).__name__}: {e}']
    des = logic.Meta.designated_values
    modal = bool(logic.Meta.modal)
    for n in branch:
        s = n.get('sentence')
        if s is None:
            if n.get('world1') is not None and n.get('world2') is not None:
                if n['world2'] not in model.R[n['world1']]:
                    problems.append(f'access {n["world1"]}R{n["world2"]} missing in the model')
            continue
        kw = {'world': n.get('world') or 0} if modal else {}
        try:
            v = model.value_of(s, **kw)
        except Exception as e:  # noqa: BLE001
            problems.append(f'value_of({s}) raised {type(e).__name__}: {e}')
            continue
        d = n.get('designated')
        want = True if d is None else d
        if (v in des) != want:
            mark = ''
            if through_nb_cell(logic, model, s, kw):
                mark = NB_MARK
            problems.append(f'node {s} (designated={d}, world={n.get("world")}) gets the value {v}{mark}')
    try:
        if not model.is_countermodel_to(tab.argument):
            problems.append('is_countermodel_to(argument) is False')
    except Exception as e:  # noqa: BLE001
        problems.append(f'is_countermodel_to raised {type(e).__name__}: {e}')
    return problems
