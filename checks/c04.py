"""C04 -- every single expansion step preserves satisfiability exactly.

For every registered logic and every non-closure rule class of its rule table
the *real* rule object is run on a real one-node (or minimal-context) branch of
a real `Tableau`; what it adds is read from the target (`adds`).  z3 then
decides, over all interpretations of the specification semantics on bounded
domains (|W| <= 3 worlds, |D| <= 3 elements),

    sat(node and context)  <=>  exists new names. OR_i AND sat(adds_i)

where new constants / worlds introduced by the rule are existentially bound
(expanded over the finite domain), non-ticking rules (universal / necessity
type) are driven to a fixpoint and compared under the assumption that every
element / accessible world is named on the branch, and multi-node rules
(identity substitution) are checked for soundness with their context at any
world.  Frame rules are run under pysymex with symbolic booleans choosing the
access nodes and compared with the closure the frame condition requires.
Coverage: every compound shape a logic interprets must have some rule that
accepts it, and expansions stay at the node's world unless the operator is
modal.
"""
from __future__ import annotations

import itertools
import multiprocessing as mp
import time

import z3

from engine.main import Report, file_hashes
from engine.semz3 import Interp, LogicSem, Stats
from pytableaux.lang import (Atomic, Constant, Operator, Predicate, Quantifier,
                             Variable)
from pytableaux.logics import registry
from pytableaux.proof import Tableau, anode, sdwnode
from pytableaux.proof.helpers import MaxConsts
from engine.tabutil import reset_order
from spec import evaluator as speceval
from spec import tables as spec

FILES = ['pytableaux/proof/rules.py', 'pytableaux/proof/helpers.py',
         'pytableaux/proof/filters.py', 'pytableaux/proof/__init__.py',
         'pytableaux/proof/tableaux.py', 'pytableaux/proof/common.py']

A, B, C = (Atomic(i, 0) for i in range(3))
F = Predicate(0, 0, 1)
G = Predicate(1, 0, 1)
H = Predicate(2, 0, 1)
R2 = Predicate(0, 1, 2)
a, b, c = (Constant(i, 0) for i in range(3))
x, y = Variable(0, 0), Variable(1, 0)
MODAL_OPS = (Operator.Possibility, Operator.Necessity)


# ---------------------------------------------------------------------------
# running the real rule
# ---------------------------------------------------------------------------

def make(logic, rulecls):
    reset_order()
    tab = Tableau(logic)
    rule = tab.rules.get(rulecls)
    branch = tab.branch()
    for r in tab.rules:
        h = r.helpers.get(MaxConsts)
        if h is not None:
            # no trunk was built: lift the projected constant limit, which is
            # not the subject of this property
            h[branch] = 1000
    return tab, rule, branch


def node_json(n):
    d = {}
    for k, v in dict(n).items():
        if k == 'sentence':
            d[k] = _ij(v.ident)
        else:
            d[k] = v
    return d


def _ij(ident):
    if isinstance(ident, tuple):
        return [_ij(t) for t in ident]
    return ident


def _it(x):
    if isinstance(x, list):
        return tuple(_it(t) for t in x)
    return x


def node_from_json(d):
    from pytableaux.lang import Sentence
    from pytableaux.proof import Node
    m = dict(d)
    if 'sentence' in m:
        m['sentence'] = Sentence(_it(m['sentence']))
    return Node.for_mapping(m)


def names_of(nodes):
    cs, ws = set(), set()
    for n in nodes:
        s = n.get('sentence')
        if s is not None:
            cs.update(s.constants)
        for k in ('world', 'world1', 'world2'):
            w = n.get(k)
            if w is not None:
                ws.add(int(w))
    return cs, ws


def exists_expand(I: Interp, term, new_consts, new_worlds):
    'Existential closure over the denotations of new names, expanded.'
    subs = []
    for cst in sorted(new_consts):
        v = I.den(cst)
        if not isinstance(v, int):
            subs.append((v, I.K))
    for w in sorted(new_worlds):
        v = I.wden(w)
        if not isinstance(v, int):
            subs.append((v, I.W))
    if not subs:
        return term
    alts = []
    for combo in itertools.product(*[range(n) for _, n in subs]):
        alts.append(z3.substitute(term, *[(v, z3.IntVal(e)) for (v, _), e in zip(subs, combo)]))
    return z3.Or(*alts)


class Case:
    'One obligation: a rule class on a node shape with context and bounds.'

    def __init__(self, rulecls, node, ctx=(), W=1, K=1, kind='ticking', label=''):
        self.rulecls = rulecls
        self.node = node
        self.ctx = tuple(ctx)
        self.W = W
        self.K = K
        self.kind = kind
        self.label = label


def run_case(S: LogicSem, logic, case: Case, stats: Stats):
    """Returns dict(status=..., ...). status in
    ok | inexact | notarget | structure | unknown | error"""
    tab, rule, branch = make(logic, case.rulecls)
    branch.extend(case.ctx)
    branch.append(case.node)
    before = list(branch)
    cs0, ws0 = names_of(before)
    apps = []
    try:
        target = rule.target(branch)
        if (target is None or 'adds' not in target) and case.kind in ('fat', 'nec'):
            # a non-ticking rule without a target is at its fixpoint after zero
            # applications: the node must then hold of every interpretation whose
            # elements / accessible worlds are all named on the branch
            if case.kind == 'fat' and not cs0:
                return dict(status='structure',
                            why='universal-type node on a branch without constants gets no expansion')
            target = None
        elif target is None or 'adds' not in target:
            return dict(status='notarget')
        if target is None:
            pass
        elif case.kind == 'ticking':
            apps.append([list(g) for g in target['adds']])
        else:
            # drive the non-ticking rule to its fixpoint on this branch
            for _ in range(12):
                groups = [list(g) for g in target['adds']]
                if len(groups) != 1:
                    return dict(status='structure', why='non-ticking rule branches')
                apps.append(groups)
                rule.apply(target)
                target = rule.target(branch)
                if target is None:
                    break
            else:
                return dict(status='structure', why='no fixpoint within 12 applications')
    except Exception as e:  # noqa: BLE001
        return dict(status='error', why=f'{type(e).__name__}: {e}')
    all_adds = [n for groups in apps for g in groups for n in g]
    if any(n.get('flag') for n in all_adds):
        return dict(status='structure', why='rule produced a flag node on a fresh branch')
    cs1, ws1 = names_of(all_adds)
    new_c, new_w = cs1 - cs0, ws1 - ws0
    # structural: expansions stay at the node's world unless the operator is modal
    s = case.node.get('sentence')
    is_modal_rule = getattr(case.rulecls, 'operator', None) in MODAL_OPS
    if not is_modal_rule and case.kind in ('ticking', 'fat') and new_w:
        return dict(status='structure', why=f'non-modal rule introduced worlds {sorted(new_w)}')
    if not is_modal_rule and case.kind in ('ticking', 'fat'):
        w0 = case.node.get('world')
        for n in all_adds:
            if n.get('sentence') is not None and n.get('world') != w0:
                return dict(status='structure', why='expansion left the node\'s world')
    K_eff = case.K
    if case.kind == 'fat':
        # "every element is named on the branch" is unsatisfiable (and the query
        # vacuous) with more elements than constants
        K_eff = max(1, min(case.K, len(cs0 | cs1)))
    I = Interp(S, 'spec', W=case.W, K=K_eff)
    lhs = I.sat_node(case.node)
    ctx = I.sat_nodes(case.ctx)
    if case.kind == 'ticking':
        groups = apps[0]
        body = z3.Or(*[I.sat_nodes(g) for g in groups])
        rhs = exists_expand(I, body, new_c, new_w)
        assume = []
    else:
        rhs = z3.And(*[I.sat_nodes(g) for groups in apps for g in groups]) if apps else z3.BoolVal(True)
        # fresh names introduced by a non-ticking rule (first constant on an
        # empty branch) are existential as well
        rhs = exists_expand(I, rhs, new_c, new_w)
        assume = []
        if case.kind == 'fat':
            consts = sorted(cs0 | cs1)
            for e in range(I.K):
                assume.append(z3.Or(*[I.den(k) == e for k in consts]))
        elif case.kind == 'nec':
            w0 = I.wden(case.node.get('world'))
            succ = [I.wden(n['world2']) for n in case.ctx
                    if n.get('world1') is not None and int(n['world1']) == int(case.node.get('world'))]
            for j in range(I.W):
                named = z3.Or(*[t == j for t in succ]) if succ else z3.BoolVal(False)
                assume.append(z3.Implies(I.R(w0, j), named))
        elif case.kind == 'multi':
            # soundness only: context and node satisfied => additions satisfied
            lhs = z3.And(lhs, ctx)
            rhs = z3.And(lhs, rhs)
    solver = z3.Solver()
    solver.add(*I.constraints())
    solver.add(*assume)
    if case.kind in ('nec',):
        solver.add(ctx)
    if assume:
        # vacuity guard: the naming assumption must be satisfiable
        if stats.check(solver) != z3.sat:
            return dict(status='vacuous')
    solver.add(lhs != rhs)
    r = stats.check(solver)
    if r == z3.unsat:
        return dict(status='ok', adds=sum(len(g) for gs in apps for g in gs),
                    new_names=len(new_c) + len(new_w))
    if r != z3.sat:
        return dict(status='unknown')
    m = solver.model()
    interp = speceval.interp_from_z3(I, m)
    direction = 'node satisfied, no extension satisfied' if z3.is_true(
        m.eval(lhs, model_completion=True)) else 'extension satisfied, node not satisfied'
    return dict(
        status='inexact', direction=direction,
        interp=speceval.interp_to_json(interp),
        adds=[[[node_json(n) for n in g] for g in groups] for groups in apps],
        new_consts=[list(k.spec) for k in sorted(new_c)], new_worlds=sorted(new_w))


# ---------------------------------------------------------------------------
# case generation
# ---------------------------------------------------------------------------

def operand_shapes(arity, thorough):
    if arity == 1:
        shapes = [(A,), (~A,), (A & B,)]
        if thorough:
            shapes += [(A | ~A,), (~~A,)]
    else:
        shapes = [(A, B), (~A, B), (A, A), (A | B, ~C)]
        if thorough:
            shapes += [(A, ~A), (A & B, A), (~A, ~B)]
    return shapes


def quant_bodies(thorough):
    bodies = [F(x), ~F(x), F(x) & G(a), R2((x, a))]
    if thorough:
        bodies += [R2((x, x)), Quantifier.Existential(y, R2((x, y))), F(x) | ~F(x)]
    return bodies


def modal_bodies(thorough):
    bodies = [A, ~A, A & B, F(a)]
    if thorough:
        bodies += [Operator.Possibility(A), Operator.Necessity(A) | B]
    return bodies


def gen_cases(logic, S: LogicSem, thorough):
    Meta = logic.Meta
    modal = bool(Meta.modal)
    w0 = 0 if modal else None
    from pytableaux.proof import rules as R
    for rulecls in logic.Rules.all():
        if getattr(rulecls, 'closure', False):
            continue
        name = rulecls.name
        d = getattr(rulecls, 'designation', None)
        neg = bool(getattr(rulecls, 'negated', False))
        op = getattr(rulecls, 'operator', None)
        q = getattr(rulecls, 'quantifier', None)
        if name in ('Serial', 'Reflexive', 'Transitive', 'Symmetric'):
            continue  # frame rules: separate exploration
        if name == 'IdentityIndiscernability':
            idn = Predicate.Identity((a, b))
            worlds = [(w0, w0)] if not modal else [(0, 0), (0, 1), (1, 0)]
            for ps in (F(a), F(b), R2((a, c)), R2((a, a)), Predicate.Identity((b, c)), ~F(a)):
                for wi, wp in worlds:
                    if type(ps).__name__ != 'Predicated':
                        continue
                    yield Case(rulecls, sdwnode(idn, None, wi), ctx=[sdwnode(ps, None, wp)],
                               W=3 if modal else 1, K=3, kind='multi',
                               label=f'{ps} @{wp} with a=b @{wi}')
            continue
        if op is not None and op not in MODAL_OPS:
            for operands in operand_shapes(op.arity, thorough):
                s = op(*operands)
                if neg:
                    s = ~s
                yield Case(rulecls, sdwnode(s, d, w0), W=1, K=1, kind='ticking', label=str(s))
            continue
        if op is not None:
            ticking = bool(rulecls.ticking)
            for body in modal_bodies(thorough):
                s = op(body)
                if neg:
                    s = ~s
                if ticking:
                    for W in ((1, 2, 3) if thorough else (2, 3)):
                        ctxs = [[]]
                        if W == 3:
                            ctxs.append([anode(0, 1), sdwnode(B, d, 1)])
                        for ctx in ctxs:
                            yield Case(rulecls, sdwnode(s, d, 0), ctx=ctx, W=W, K=2 if body.constants else 1,
                                       kind='ticking', label=f'{s} W={W} ctx={len(ctx)}')
                else:
                    for acc in ([(0, 1)], [(0, 1), (0, 2)], [(0, 0)], [(0, 0), (0, 1)], [(0, 1), (1, 2)]):
                        worlds = {0} | {w for p in acc for w in p}
                        ctx = [anode(*p) for p in acc]
                        yield Case(rulecls, sdwnode(s, d, 0), ctx=ctx, W=len(worlds) if not thorough else 3,
                                   K=2 if body.constants else 1, kind='nec',
                                   label=f'{s} access={acc}')
            continue
        if q is not None:
            fat = issubclass(rulecls, R.ExtendedQuantifierRule)
            for body in quant_bodies(thorough):
                s = q(x, body)
                if neg:
                    s = ~s
                # context constants in adverse order (b before a), then none
                ctxsets = [[], [sdwnode(H(b), d if d is not None else None, w0)],
                           [sdwnode(H(b), d, w0), sdwnode(H(a), d, w0)]]
                for ctx in ctxsets:
                    for K in ((1, 2, 3) if thorough else (2, 3)):
                        yield Case(rulecls, sdwnode(s, d, w0), ctx=ctx, W=1, K=K,
                                   kind='fat' if fat else 'ticking',
                                   label=f'{s} K={K} ctx={len(ctx)}')
            continue
        yield Case(rulecls, None, kind='unclassified', label=name)


# ---------------------------------------------------------------------------
# coverage: every compound shape the logic interprets has an expansion
# ---------------------------------------------------------------------------

def coverage_shapes(logic):
    Meta = logic.Meta
    modal = bool(Meta.modal)
    w0 = 0 if modal else None
    fde_style = any(getattr(r, 'designation', None) is not None for r in logic.Rules.all())
    desigs = (True, False) if fde_style else (None,)
    out = []
    for op in Operator:
        if op in MODAL_OPS and not modal:
            continue
        if op is Operator.Negation:
            # negation is handled by the XNegated rules; double negation here
            for d in desigs:
                out.append((f'DoubleNegation d={d}', sdwnode(~~A, d, w0), []))
            continue
        operands = (A,) if op.arity == 1 else (A, B)
        for neg in (False, True):
            s = op(*operands)
            if neg:
                s = ~s
            for d in desigs:
                ctx = [anode(0, 1)] if op in MODAL_OPS else []
                out.append((f'{op.name}{"Negated" if neg else ""} d={d}', sdwnode(s, d, w0), ctx))
    if Meta.quantified:
        for q in Quantifier:
            for neg in (False, True):
                s = q(x, F(x))
                if neg:
                    s = ~s
                for d in desigs:
                    out.append((f'{q.name}{"Negated" if neg else ""} d={d}', sdwnode(s, d, w0), []))
    return out


def check_coverage(logic):
    missing = []
    shapes = coverage_shapes(logic)
    for label, node, ctx in shapes:
        reset_order()
        tab = Tableau(logic)
        branch = tab.branch()
        for r in tab.rules:
            h = r.helpers.get(MaxConsts)
            if h is not None:
                h[branch] = 1000
        branch.extend(ctx)
        branch.append(node)
        found = False
        for rule in tab.rules:
            if getattr(rule, 'closure', False):
                continue
            if rule.name in ('Serial', 'Reflexive', 'Transitive', 'Symmetric'):
                continue
            try:
                t = rule.target(branch)
            except Exception:  # noqa: BLE001
                t = None
            if t is not None and t.get('node') is node:
                found = True
                break
        if not found:
            missing.append(label)
    return len(shapes), missing


# ---------------------------------------------------------------------------
# frame rules under pysymex
# ---------------------------------------------------------------------------

def frame_exploration(logic, W, stats_out, bare=False):
    """All sets of access pairs over W worlds (symbolic booleans), real frame
    rules driven by the real step loop; result compared with the closure the
    frame condition requires."""
    from engine.pysymex import Explorer, SymBool
    name = logic.Meta.name
    info = spec.logic_info(name)
    frame = info['frame']
    fde_style = any(getattr(r, 'designation', None) is not None for r in logic.Rules.all())
    d = True if fde_style else None
    pairs = [(i, j) for i in range(W) for j in range(W)]
    bad = []

    def fn():
        reset_order()
        tab = Tableau(logic)
        branch = tab.branch()
        chosen = []
        if not bare:
            for w in range(W):
                branch.append(sdwnode(Atomic(w, 0), d, w))
        for (i, j) in pairs:
            if SymBool(f'acc_{i}_{j}'):
                branch.append(anode(i, j))
                chosen.append((i, j))
        steps = 0
        while tab.step() is not None:
            steps += 1
            if steps > 200:
                raise RuntimeError('frame rules do not terminate')
        got = set()
        worlds = set()
        for n in branch:
            if n.get('world1') is not None and n.get('world2') is not None:
                got.add((int(n['world1']), int(n['world2'])))
            for k in ('world', 'world1', 'world2'):
                if n.get(k) is not None:
                    worlds.add(int(n[k]))
        return chosen, got, worlds, len(tab)

    ex = Explorer(max_paths=5000, max_seconds=120)
    paths = ex.run(fn)
    for p in paths:
        if p.kind == 'exc':
            bad.append(dict(chosen=None, why=f'{type(p.value).__name__}: {p.value}'))
            continue
        chosen, got, worlds, nbranches = p.value
        if nbranches != 1:
            bad.append(dict(chosen=chosen, why='frame rule branched'))
            continue
        # worlds that occur on the branch (all of them when every world carries
        # a sentence; only those named by access nodes in the bare variant)
        base = set(range(W)) if not bare else {w for p_ in chosen for w in p_}
        if frame == 'serial':
            # a successor for every world that carries a sentence; nothing else
            # but the chosen pairs and fresh-world successors
            ok = all(any((w, v) in got for v in worlds) for w in base)
            extra = {p_ for p_ in got - set(chosen) if not (p_[0] in base and p_[1] not in base)}
            # every added pair must go from an original world without a chosen
            # successor to a fresh world
            for (u, v) in got - set(chosen):
                if any(c[0] == u for c in chosen):
                    extra.add((u, v))
            if not ok or extra:
                bad.append(dict(chosen=chosen, got=sorted(got), why='serial closure wrong'))
        else:
            want = spec.closure(frame, base, chosen)
            if got != want:
                bad.append(dict(chosen=chosen, got=sorted(got), want=sorted(want),
                                why='closure differs'))
    stats_out.merge(dict(queries=ex.queries, results=ex.query_results, solver_time_s=ex.solver_time))
    return dict(paths=len(paths), exhausted=ex.exhausted, bad=bad, decisions=ex.decisions_total)


# ---------------------------------------------------------------------------
# per-logic work unit
# ---------------------------------------------------------------------------

def logic_unit(arg):
    name, thorough = arg
    registry.import_all()
    logic = registry(name)
    S = LogicSem(name)
    stats = Stats()
    out = dict(logic=name, cases=0, ok=0, results=[], unknown=0, samples=[],
               notarget=[], rules=set(), rules_ok=set())
    t0 = time.time()
    for case in gen_cases(logic, S, thorough):
        rname = case.rulecls.name
        out['rules'].add(rname)
        if case.kind == 'unclassified':
            out['results'].append(dict(rule=rname, status='unclassified', label=case.label))
            continue
        out['cases'] += 1
        res = run_case(S, logic, case, stats)
        st = res['status']
        if st == 'ok':
            out['ok'] += 1
            out['rules_ok'].add(rname)
            if len(out['samples']) < 2:
                out['samples'].append(dict(
                    logic=name, rule=rname, node=case.label, kind=case.kind,
                    W=case.W, K=case.K, result='unsat (exact)', adds=res['adds'],
                    new_names=res['new_names']))
        elif st == 'notarget':
            out['cases'] -= 1     # the rule adds nothing here: no obligation
            out['notarget'].append((rname, case.label))
        elif st == 'unknown':
            out['unknown'] += 1
        else:
            res.update(rule=rname, label=case.label, kind=case.kind, W=case.W, K=case.K,
                       node=node_json(case.node), ctx=[node_json(n) for n in case.ctx])
            out['results'].append(res)
    ncov, missing = check_coverage(logic)
    out['coverage_shapes'] = ncov
    out['coverage_missing'] = missing
    out['frame'] = None
    if logic.Meta.modal and spec.logic_info(name)['frame'] != 'none':
        Ws = (2, 3) if (thorough or name in FRAME_REPRESENTATIVES) else (2,)
        fr = dict(paths=0, bad=[], exhausted=True, decisions=0)
        for W, bare in [(W_, False) for W_ in Ws] + ([(3, True)] if spec.logic_info(name)['frame'] != 'serial' else []):
            r = frame_exploration(logic, W, stats, bare)
            fr['paths'] += r['paths']
            fr['decisions'] += r['decisions']
            fr['exhausted'] &= r['exhausted']
            for b_ in r['bad']:
                b_['W'] = W
                b_['bare'] = bare
                fr['bad'].append(b_)
        out['frame'] = fr
    out['rules'] = sorted(out['rules'])
    out['rules_ok'] = sorted(out['rules_ok'])
    out['stats'] = stats.asdict()
    out['wall'] = time.time() - t0
    return out


FRAME_REPRESENTATIVES = ('D', 'T', 'S4', 'S5', 'TFDE', 'S4FDE', 'S5FDE', 'S4GO', 'S5K3WQ', 'TLP')


def run(ctx):
    rep = Report('C04', 'proof')
    registry.import_all()
    names = sorted(registry(n).Meta.name for n in registry.all())
    thorough = not ctx.quick
    with mp.Pool(min(ctx.jobs, len(names))) as pool:
        results = pool.map(logic_unit, [(n, thorough) for n in names], chunksize=1)
    stats = Stats()
    obligations = discharged = 0
    samples = []
    rules_total = 0
    frame_paths = frame_dec = 0
    notarget_rules = []
    for r in results:
        name = r['logic']
        stats.merge(r['stats'])
        obligations += r['cases'] + r['coverage_shapes']
        discharged += r['ok'] + (r['coverage_shapes'] - len(r['coverage_missing']))
        rules_total += len(r['rules'])
        samples += r['samples'][:1]
        if r['unknown']:
            rep.inconclusive.append(f'{name}: {r["unknown"]} obligations with z3 unknown')
        seen = set()
        for res in r['results']:
            key = f'C04|{name}|{res["rule"]}'
            if res['status'] == 'vacuous':
                rep.harness_error(f'{name} {res["rule"]} on {res["label"]}: assumptions unsatisfiable (vacuous query)')
                continue
            if res['status'] == 'unclassified':
                rep.harness_error(f'{name}: rule class {res["rule"]} not classified by the harness')
                continue
            if res['status'] == 'inexact':
                rep.violation(
                    key, f'{name} {res["rule"]} on {res["label"]}: {res["direction"]}',
                    dict(kind='rule', logic=name, rule=res['rule'], node=res['node'], ctx=res['ctx'],
                         case_kind=res['kind'], interp=res['interp'], direction=res['direction'],
                         new_consts=res['new_consts'], new_worlds=res['new_worlds']))
            else:
                rep.violation(
                    key + f'|{res["status"]}',
                    f'{name} {res["rule"]} on {res["label"]}: {res.get("why")}',
                    dict(kind='structure', logic=name, rule=res['rule'], node=res['node'],
                         ctx=res['ctx'], case_kind=res['kind'], why=res.get('why'),
                         W=res.get('W', 1), K=res.get('K', 1)))
        # a rule class none of whose shapes produced a target was never checked
        never = sorted(set(r['rules']) - set(r['rules_ok']) - {x['rule'] for x in r['results']}
                       - {'Serial', 'Reflexive', 'Transitive', 'Symmetric'})
        for rn in never:
            notarget_rules.append(f'{name}.{rn}')
        for label in r['coverage_missing']:
            rep.violation(
                f'C04|{name}|coverage|{label}',
                f'{name}: no rule expands the node shape {label}',
                dict(kind='coverage', logic=name, label=label))
        fr = r['frame']
        if fr:
            frame_paths += fr['paths']
            frame_dec += fr['decisions']
            obligations += fr['paths']
            discharged += fr['paths'] - len(fr['bad'])
            if not fr['exhausted']:
                rep.inconclusive.append(f'{name}: frame rule exploration not exhausted')
            for b_ in fr['bad'][:1]:
                rep.violation(
                    f'C04|{name}|frame-rules',
                    f'{name}: frame rules on access pairs {b_.get("chosen")} give '
                    f'{b_.get("got")} ({b_["why"]}; required {b_.get("want")})',
                    dict(kind='frame', logic=name, W=b_['W'], chosen=b_.get('chosen'),
                         want=b_.get('want'), bare=b_.get('bare', False)))
    if notarget_rules:
        rep.harness_error(
            f'{len(notarget_rules)} rule classes never produced a target on any generated shape '
            f'(unchecked): {notarget_rules[:8]}')
    rep.coverage = dict(
        obligations=obligations, discharged=discharged,
        checker_cmd=f'z3 {z3.get_version_string()} (python API), quantifier-free over finite domains',
        trusted_base=['z3', 'engine/semz3.py Interp encoding', 'spec/tables.py semantics',
                      'the real rule objects run by CPython'],
        logics=len(results), rule_classes=rules_total,
        frame_rule_paths=frame_paths, frame_rule_decisions=frame_dec,
        bounds=dict(worlds='|W|<=3', domain='|D|<=3', operands='letters, negated letter, repeated '
                    'letter, binary compounds', quantifier_bodies='Fx, ~Fx, Fx&Ga, Rxa'
                    + (', Rxx, ExRxy, Fxv~Fx' if thorough else ''),
                    frame_rules='all sets of access pairs over <=3 worlds, every world carrying a sentence (2 worlds for '
                    'non-representative logics in the quick tier) and, for non-serial logics, over 3 worlds named '
                    'by access nodes only'),
        functions_encoded=['<logic>.Rules.<Rule>._get_targets/_get_node_targets/_get_sdw_targets '
                           '(run, output encoded)', 'proof.helpers.AdzHelper target format',
                           'proof.rules.access.*', 'Tableau.step (frame-rule fixpoint)'],
        file_hashes=file_hashes(FILES),
        solver=stats.asdict(), samples=samples[:8],
        refuted=obligations - discharged, exhaustive=not rep.inconclusive)
    rep.assumptions = [
        'oracle: spec/tables.py (FDE family: Belnap-Dunn lattice)',
        'quantifiers range over the named elements of a non-empty domain of size <= 3',
        'MaxConsts limit lifted on harness branches (no trunk built)',
        'non-ticking rules compared at their fixpoint under "every element / accessible world is '
        'named on the branch"',
        'substitution (Quantified.unquantify) is the real one; its exactness is property C15']
    return rep


# ---------------------------------------------------------------------------
# replay: real rule, plain-Python evaluator, no z3
# ---------------------------------------------------------------------------

def replay(data):
    registry.import_all()
    logic = registry(data['logic'])
    kind = data['kind']
    if kind == 'coverage':
        n, missing = check_coverage(logic)
        return data['label'] in missing, f'{data["logic"]}: shapes without a rule: {missing}'
    if kind == 'frame':
        from pytableaux.proof import Tableau as Tab
        W = data['W']
        fde_style = any(getattr(r, 'designation', None) is not None for r in logic.Rules.all())
        d = True if fde_style else None
        reset_order()
        tab = Tab(logic)
        branch = tab.branch()
        if not data.get('bare'):
            for w in range(W):
                branch.append(sdwnode(Atomic(w, 0), d, w))
        for (i, j) in data['chosen'] or ():
            branch.append(anode(i, j))
        n = 0
        while tab.step() is not None and n < 300:
            n += 1
        got = sorted((int(x['world1']), int(x['world2'])) for x in branch
                     if x.get('world1') is not None and x.get('world2') is not None)
        frame = spec.logic_info(data['logic'])['frame']
        if frame == 'serial':
            chosen = [tuple(p) for p in data['chosen'] or ()]
            worlds = {w for p in got for w in p} | set(range(W))
            ok = all(any((w, v) in got for v in worlds) for w in range(W))
            for (u, v) in set(got) - set(chosen):
                # an added pair must lead from a world without a chosen successor to a fresh world
                if v in range(W) or any(c[0] == u for c in chosen):
                    ok = False
            return not ok, f'serial: chosen {chosen} -> pairs {got}'
        base = set(range(W)) if not data.get('bare') else {w for p in data['chosen'] or () for w in p}
        want = sorted(spec.closure(frame, base, [tuple(p) for p in data['chosen'] or ()]))
        return got != want, f'{data["logic"]}: chosen {data["chosen"]} -> {got}, required {want}'
    rulecls = next(r for r in logic.Rules.all() if r.name == data['rule'])
    node = node_from_json(data['node'])
    ctx = [node_from_json(n) for n in data['ctx']]
    tab, rule, branch = make(logic, rulecls)
    branch.extend(ctx)
    branch.append(node)
    target = rule.target(branch)
    if kind == 'structure':
        if 'gets no expansion' in str(data.get('why')):
            return target is None, f'{data["logic"]} {data["rule"]}: target={target is not None}: {data.get("why")}'
        # the structural findings are properties of the target just computed
        res = run_case(LogicSem(data['logic']), logic,
                       Case(rulecls, node, ctx=ctx, W=data.get('W', 1), K=data.get('K', 1),
                            kind=data['case_kind']), Stats())
        return res['status'] == 'structure', f'structure: {res.get("why", res["status"])}'
    if target is None and data['case_kind'] not in ('fat', 'nec'):
        return False, 'rule produced no target in replay'
    apps = []
    if target is None:
        pass
    elif data['case_kind'] == 'ticking':
        apps.append([list(g) for g in target['adds']])
    else:
        for _ in range(12):
            apps.append([list(g) for g in target['adds']])
            rule.apply(target)
            target = rule.target(branch)
            if target is None:
                break
    interp = speceval.interp_from_json(data['interp'])
    new_c = [tuple(k) for k in data['new_consts']]
    new_w = list(data['new_worlds'])

    def evaluate(i):
        ev = speceval.Evaluator(data['logic'], i)
        lhs = ev.sat_node(node) and (all(ev.sat_node(n) for n in ctx) if data['case_kind'] == 'multi' else True)
        if data['case_kind'] == 'ticking':
            rhs = any(all(ev.sat_node(n) for n in g) for g in apps[0])
        else:
            rhs = all(ev.sat_node(n) for gs in apps for g in gs for n in g)
        return lhs, rhs
    # existential over the new names
    K, W = interp['K'], len(interp['worlds'])
    lhs = None
    rhs_any = False
    for combo in itertools.product(*([range(K)] * len(new_c) + [range(W)] * len(new_w))):
        i = dict(interp)
        i['den'] = dict(interp['den'])
        i['wden'] = dict(interp['wden'])
        for k, e in zip(new_c, combo[:len(new_c)]):
            i['den'][k] = e
        for w, e in zip(new_w, combo[len(new_c):]):
            i['wden'][w] = e
        l, r = evaluate(i)
        lhs = l
        rhs_any = rhs_any or r
    if data['case_kind'] == 'multi':
        bad = lhs and not rhs_any
    else:
        bad = lhs != rhs_any
    return bad, (f'{data["logic"]} {data["rule"]}: node satisfied={lhs}, some extension satisfied='
                 f'{rhs_any} under the recorded interpretation ({data["direction"]})')
