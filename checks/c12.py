"""C12 -- sentences and arguments survive a write/parse round trip.

Sentence-driven part (pysymex, n-ary symbolic picks): sentence shapes of the
parsers' language (closed, no vacuous or re-bound quantifier, one arity per
predicate symbol) are built by the real constructors; every symbol slot picks
its index from the ends of the type's range and its subscript from a stated
set ({0,1,10} quick, {0,1,9,10,11,100} thorough).  Per path: the Polish ASCII
rendering parses back to an equal sentence; the canonical argument string of
arguments made of such sentences rebuilds an equal argument; and for every registered (notation, format, dialect) the
renderings of all distinct sentences are pairwise different (checked over the
union of all paths).

String-driven part: the product exploration of checks/parsex.py for the
standard notation: whenever the real parser returns a sentence for an input,
it is the sentence the reference parser says the string denotes (with or
without outer parentheses, with extra whitespace).
"""
from __future__ import annotations

import multiprocessing as mp

from checks import parsex
from engine import lexsym
from engine.main import Report, file_hashes
from engine.pysymex import Explorer, ReplayDriver, SymDriver

FILES = ['pytableaux/lang/parsing.py', 'pytableaux/lang/writing.py', 'pytableaux/lang/_symdata.py',
         'pytableaux/lang/collect.py']

SUBS_QUICK = (0, 1, 10)
SUBS_THOROUGH = (0, 1, 9, 10, 11, 100)


class Bad(Exception):
    pass


class B:
    'builds symbols from picks; one arity per predicate symbol'

    def __init__(self, drv, subs):
        self.drv = drv
        self.subs = subs
        self.n = 0
        self.preds = {}

    def _coords(self, maxi):
        self.n += 1
        i = (0, maxi)[self.drv.pick(2, f'i{self.n}')]
        s = self.subs[self.drv.pick(len(self.subs), f's{self.n}')]
        return i, s

    def atom(self):
        from pytableaux.lang import Atomic
        return Atomic(*self._coords(4))

    def const(self):
        from pytableaux.lang import Constant
        return Constant(*self._coords(3))

    def var(self, avoid=()):
        from pytableaux.lang import Variable
        v = Variable(*self._coords(3))
        if v in avoid:
            raise Skip()
        return v

    def pred(self, arity):
        from pytableaux.lang import Predicate
        i, s = self._coords(3)
        if self.preds.setdefault((i, s), arity) != arity:
            raise Skip()
        return Predicate(i, s, arity)


class Skip(Exception):
    'combination outside the parsers\' language (re-bound variable, arity clash)'


def shapes():
    from pytableaux.lang import Operator as O
    from pytableaux.lang import Predicate as P
    from pytableaux.lang import Quantifier as Q

    def q1(b):
        v = b.var()
        return Q.Existential(v, b.pred(1)(v))

    def q2(b):
        v = b.var()
        u = b.var(avoid=(v,))
        return Q.Universal(v, Q.Existential(u, b.pred(2)((v, u))))

    def q3(b):
        v = b.var()
        return Q.Universal(v, O.Conditional(b.pred(1)(v), b.pred(2)((v, b.const()))))
    return {
        'A': lambda b: b.atom(),
        '~A': lambda b: ~b.atom(),
        'A&B': lambda b: b.atom() & b.atom(),
        '(A>B)vC': lambda b: O.MaterialConditional(b.atom(), b.atom()) | b.atom(),
        '~(A%B)': lambda b: ~O.Biconditional(b.atom(), b.atom()),
        'M*A': lambda b: O.Possibility(O.Assertion(b.atom())),
        'L(A<B)': lambda b: O.Necessity(O.MaterialBiconditional(b.atom(), b.atom())),
        'Fc': lambda b: b.pred(1)(b.const()),
        'Rcd': lambda b: b.pred(2)((b.const(), b.const())),
        'Fc&Gcd': lambda b: b.pred(1)(b.const()) & b.pred(2)((b.const(), b.const())),
        'c=d': lambda b: P.Identity((b.const(), b.const())),
        '~c=d': lambda b: ~P.Identity((b.const(), b.const())),
        'Mc=d': lambda b: O.Possibility(P.Identity((b.const(), b.const()))),
        '*c=d': lambda b: O.Assertion(P.Identity((b.const(), b.const()))),
        'L~c=d': lambda b: O.Necessity(~P.Identity((b.const(), b.const()))),
        'E!c v A': lambda b: P.Existence(b.const()) | b.atom(),
        '(c=d $ Fc)': lambda b: O.Conditional(P.Identity((b.const(), b.const())), b.pred(1)(b.const())),
        'ExFx': q1,
        'AxEyRxy': q2,
        'Ax(Fx$Rxc)': q3,
        '~ExFx & A': lambda b: ~q1(b) & b.atom(),
        'Ex x=c': lambda b: (lambda v: Q.Existential(v, P.Identity((v, b.const()))))(b.var()),
    }


STANDARD_OPTS = [dict(drop_parens=dp, identity_infix=ii) for dp in (True, False) for ii in (True, False)]


def sentence_fn(drv, shape, subs, renderings):
    from pytableaux.lang import Argument, LexWriter, Notation, Parser
    lexsym.reset_cache()
    b = B(drv, subs)
    try:
        x = shapes()[shape](b)
    except Skip:
        return 'skip'
    ident = parsex.to_plain(x.ident)
    drv.note('sentence', str(x))
    # Polish ASCII round trip
    pw = LexWriter('polish', 'text', 'ascii')
    text = pw(x)
    try:
        y = Parser('polish')(text)
    except Exception as e:  # noqa: BLE001
        raise Bad(f'polish rendering {text!r} does not parse: {type(e).__name__}: {e}')
    if y != x or parsex.to_plain(y.ident) != ident:
        raise Bad(f'polish rendering {text!r} parses to a different sentence {y}')
    # argument string; an earlier argument string of this process used the same predicate
    # symbols at another arity (the rebuild must not depend on that history)
    for pr in x.predicates:
        if not pr.is_system:
            params = 'mnos'[:pr.arity + 1] if pr.arity < 4 else 'm'
            sub = str(pr.subscript) if pr.subscript else ''
            try:
                Argument('FGHO'[pr.index] + sub + params)
            except Exception:  # noqa: BLE001
                pass
    arg = Argument(x, [~x, x])
    try:
        arg2 = Argument(arg.argstr())
    except Exception as e:  # noqa: BLE001
        raise Bad(f'argument string {arg.argstr()!r} does not rebuild: {type(e).__name__}: {e}')
    if arg2 != arg or tuple(arg2) != tuple(arg):
        raise Bad(f'argument string {arg.argstr()!r} rebuilds a different argument')
    # injectivity material: every registered format / dialect
    if renderings is not None:
        for notn in Notation:
            for fmt, dialects in notn.formats.items():
                for dialect in sorted(dialects):
                    w = LexWriter(notn, fmt, dialect)
                    renderings.setdefault((notn.name, fmt, dialect), {}).setdefault(w(x), set()).add(ident)
        for opts in STANDARD_OPTS[1:]:
            sw = LexWriter('standard', 'text', 'ascii', **opts)
            renderings.setdefault(('standard', 'text', 'ascii', str(sorted(opts.items()))), {}).setdefault(
                sw(x), set()).add(ident)
    return 'ok'


def sentence_unit(arg):
    shape, subs, budget = arg
    renderings = {}
    drv = SymDriver()
    ex = Explorer([], max_paths=2_000_000, max_seconds=budget)
    paths = ex.run(lambda: sentence_fn(drv, shape, subs, renderings))
    bad = []
    ok = 0
    for p in paths:
        if p.kind == 'ok':
            ok += p.value == 'ok'
            continue
        bad.append(dict(shape=shape, error=f'{type(p.value).__name__}: {p.value}', picks=list(p.picks),
                        sentence=p.notes.get('sentence')))
    collisions = []
    for cfg, table in renderings.items():
        for text, idents in table.items():
            if len(idents) > 1:
                collisions.append(dict(config=list(cfg), text=text, sentences=[str(i)[:200] for i in idents]))
    sample = None
    if paths:
        p = paths[len(paths) // 2]
        sample = dict(shape=shape, sentence=p.notes.get('sentence'), picks=list(p.picks)[:12],
                      outcome=str(p.value)[:60])
    # renderings are returned for the cross-shape injectivity check
    flat = {cfg: {t: sorted(map(str, ids))[0] for t, ids in tab.items()} for cfg, tab in renderings.items()}
    return dict(shape=shape, stats=ex.stats(), bad=bad[:10], nbad=len(bad), ok=ok,
                collisions=collisions[:10], renderings=flat, sample=sample)


def string_unit(arg):
    notation, n, store_name, head, budget = arg
    from checks.c13 import STORES
    lexsym.install_hash_abstraction()
    alpha = parsex.ALPHABETS[(notation, 'reduced')]
    ex, paths = parsex.explore(notation, n, alpha, STORES[store_name], head=head, budget=budget)
    lexsym.remove_hash_abstraction()
    bad = []
    accepted = 0
    variants = 0
    seen = set()
    for p in paths:
        if p.kind == 'ok':
            accepted += p.value[0] == 'sentence'
            if p.value[0] == 'sentence' and p.value[2] not in seen:
                # "with arbitrary extra whitespace": blanks inserted at every position of the
                # accepted witness, real entry point against the reference parser (concrete)
                text = p.value[2]
                seen.add(text)
                vs = parsex.blank_variants(text)
                variants += len(vs)
                for v, real, ref in parsex.whitespace_differential(notation, text, STORES[store_name])[:2]:
                    bad.append(dict(text=v, store=store_name, kind='whitespace',
                                    error=f'with blanks inserted into {text!r}: real parser {real}, '
                                          f'reference {ref}'))
            continue
        e = p.value
        s = p.notes.get('input')
        if getattr(e, 'kind', None) == 'denotation':
            bad.append(dict(text=s.witness(alpha[0]), error=str(e), store=store_name))
        elif getattr(e, 'kind', None) == 'agreement' and str(e).startswith('real parser: reject'):
            # a string the reference parser reads as a sentence is well formed: rejecting it
            # is not mapping it to the sentence it denotes
            bad.append(dict(text=s.witness(alpha[0]), error=str(e), store=store_name))
    return dict(notation=notation, n=n, stats=ex.stats(), bad=bad[:10], accepted=accepted, head=head,
                variants=variants)


def run(ctx):
    rep = Report('C12', 'model_checking')
    subs = SUBS_QUICK if ctx.quick else SUBS_THOROUGH
    budget = 600 if ctx.quick else 3000
    sunits = [(name, subs, budget) for name in shapes()]
    N = 4 if ctx.quick else 5
    alpha = parsex.ALPHABETS[('standard', 'reduced')]
    tunits = []
    for store in ('empty', 'F1,G2', 'F3'):
        for n in range(1, N + 1):
            if n >= 3:
                tunits += [('standard', n, store, (ch,), budget) for ch in alpha]
            else:
                tunits.append(('standard', n, store, (), budget))
    with mp.Pool(ctx.jobs) as pool:
        ar = pool.map_async(string_unit, tunits, chunksize=1)
        sres = pool.map(sentence_unit, sunits, chunksize=1)
        tres = ar.get()
    paths = trans = 0
    sentences = 0
    samples = []
    merged = {}
    for r in sres:
        st = r['stats']
        paths += st['paths']
        trans += st['picks']
        sentences += r['ok']
        if r['sample']:
            samples.append(r['sample'])
        if not st['exhausted']:
            rep.inconclusive.append(f'shape {r["shape"]}: not exhausted')
        for b in r['bad'][:3]:
            rep.violation(f'C12|roundtrip|{r["shape"]}|{b["error"].split(":")[1][:60]}',
                          f'{b["sentence"]}: {b["error"]}',
                          dict(kind='sentence', shape=r['shape'], picks=b['picks'],
                               subs=list(subs), error=b['error']))
        for c in r['collisions'][:3]:
            rep.violation(f'C12|injectivity|{"/".join(map(str, c["config"]))}|{c["text"]}',
                          f'{c["config"]}: distinct sentences render to {c["text"]!r}: {c["sentences"]}',
                          dict(kind='collision', config=c['config'], text=c['text'], sentences=c['sentences']))
        for cfg, tab in r['renderings'].items():
            m = merged.setdefault(cfg, {})
            for text, ident in tab.items():
                if text in m and m[text] != ident:
                    rep.violation(f'C12|injectivity|{"/".join(map(str, cfg))}|{text}',
                                  f'{cfg}: distinct sentences render to {text!r}: {m[text][:150]} / {ident[:150]}',
                                  dict(kind='collision', config=list(cfg), text=text,
                                       sentences=[m[text], ident]))
                m.setdefault(text, ident)
    accepted = 0
    for r in tres:
        st = r['stats']
        paths += st['paths']
        trans += st['picks']
        accepted += r['accepted']
        if not st['exhausted']:
            rep.inconclusive.append(f'standard n={r["n"]} head={r["head"]}: not exhausted')
        for b in r['bad'][:3]:
            rep.violation(f'C12|denotation|{b["text"]!r}|{b["store"]}',
                          f'standard input {b["text"]!r}: {b["error"]}',
                          dict(kind='denotation', text=b['text'], store=b['store']))
    rep.coverage = dict(
        states=paths, transitions=trans, traces_validated_against_impl=sentences, samples=samples[:6],
        sentences_round_tripped=sentences, accepted_standard_inputs=accepted,
        whitespace_variants=sum(r.get('variants', 0) for r in tres),
        renderings_compared={'/'.join(map(str, k)): len(v) for k, v in merged.items()},
        bounds=dict(shapes=list(shapes()), subscripts=list(subs), index='first and last of the type range',
                    standard_input_length=N, alphabet=''.join(alpha),
                    whitespace='every accepted witness with one / two blanks inserted at every position, all '
                               'positions at once, and around it (real entry point vs reference, concrete)'),
        functions_executed=['LexWriter._write*/PolishLexWriter/StandardLexWriter', 'Parser.__call__',
                            'Argument.argstr/from_argstr', 'StringTable lookups'],
        file_hashes=file_hashes(FILES), exhaustive=not rep.inconclusive,
        rule='paths = symbol choices per sentence shape; input classes of the standard parser')
    rep.assumptions = ['the parsers\' language: closed sentences without vacuous or re-bound quantifiers, one '
                       'arity per predicate symbol', 'reference grammar: spec/refparse.py']
    return rep


def replay(data):
    kind = data['kind']
    if kind == 'sentence':
        drv = ReplayDriver(data['picks'], {})
        try:
            sentence_fn(drv, data['shape'], tuple(data['subs']), None)
        except Bad as e:
            return True, str(e)
        except Exception as e:  # noqa: BLE001
            return True, f'{type(e).__name__}: {e}'
        return False, 'round trip holds'
    if kind == 'collision':
        return len(set(data['sentences'])) > 1, f'{data["config"]}: {data["text"]!r} <- {data["sentences"]}'
    from checks.c13 import STORES
    from spec import refparse
    got = parsex.concrete_outcome('standard', data['text'], STORES[data['store']])
    try:
        ref = ('sentence', refparse.parse('standard', data['text'], dict(STORES[data['store']])))
    except refparse.Reject as e:
        ref = ('reject', str(e))
    # the reference reads a sentence: the real parser must return that sentence
    return (ref[0] == 'sentence' and (got[0] != 'sentence' or got[1] != ref[1])), f'real {got}, reference {ref}'
