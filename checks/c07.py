"""C07 -- each logic's truth tables are the documented ones.

Decided by z3 as an equivalence checker over the complete (finite) value
space: the `impl` table of every operator of every registered logic is the
complete evaluation of the real `Model.truth_function` of /repo's current
source; the `spec` table comes from spec/tables.py.  Per (logic, operator)
one query ``exists tuple: impl(op)(tuple) != spec(op)(tuple)``; `sat` is a
difference, enumerated completely (all-sat) so that the finding is identified
by the exact tuples.  Further obligations: definitional identities on `impl`,
modal logic == its base logic, value and designated sets, and the published
`Model.truth_table(op)` (both orientations, alternating call order) == the
truth function.
"""
from __future__ import annotations

import z3

from engine.main import Report, file_hashes
from engine.semz3 import LogicSem, Stats, ite_table
from pytableaux.logics import registry
from spec import tables as spec

FILES = ['pytableaux/models/__init__.py'] + [
    f'pytableaux/logics/{n}.py' for n in (
        'fde', 'k3', 'lp', 'cpl', 'l3', 'rm3', 'k3w', 'b3e', 'g3', 'mh', 'nh',
        'go', 'p3', '__init__')]

IDENTITIES = {
    # name -> (operator, arity, builder of the defining term from impl tables)
    'MaterialConditional=~avb': (
        'MaterialConditional',
        lambda S, a, b: S.tf('impl', 'Disjunction', S.tf('impl', 'Negation', a), b)),
    'MaterialBiconditional=(a>b)&(b>a)': (
        'MaterialBiconditional',
        lambda S, a, b: S.tf(
            'impl', 'Conjunction',
            S.tf('impl', 'MaterialConditional', a, b),
            S.tf('impl', 'MaterialConditional', b, a))),
    'Biconditional=(a$b)&(b$a)': (
        'Biconditional',
        lambda S, a, b: S.tf(
            'impl', 'Conjunction',
            S.tf('impl', 'Conditional', a, b),
            S.tf('impl', 'Conditional', b, a))),
}
NATIVE_ASSERTION = ('B3E', 'GO')


def allsat(stats, solver, vars_, limit=64):
    out = []
    while len(out) < limit:
        r = stats.check(solver)
        if r != z3.sat:
            return out, r
        m = solver.model()
        vals = tuple(m.eval(v, model_completion=True).as_long() for v in vars_)
        out.append(vals)
        solver.add(z3.Or(*[v != x for v, x in zip(vars_, vals)]))
    return out, z3.unknown


def base_logic_name(S: LogicSem):
    'Registered non-modal logic a modal logic is documented to be built on.'
    if S.info['frame'] is None:
        return None
    name = S.name
    if name in ('K', 'D', 'T', 'S4', 'S5'):
        return 'CFOL'
    for prefix, _ in spec.FRAME_PREFIX:
        if name.startswith(prefix):
            return name[len(prefix):]


def run(ctx):
    rep = Report('C07', 'proof')
    stats = Stats()
    registry.import_all()
    names = sorted(registry(n).Meta.name for n in registry.all())
    sems = {}
    obligations = discharged = 0
    samples = []
    a, b = z3.Ints('a b')

    def diff_query(S, arity, lhs_term, rhs_term):
        s = z3.Solver()
        vars_ = (a, b)[:arity]
        s.add(*[S.dom(v) for v in vars_])
        s.add(lhs_term != rhs_term)
        tuples, last = allsat(stats, s, vars_)
        return tuples, last

    for name in names:
        try:
            S = sems[name] = LogicSem(name)
        except KeyError:
            rep.harness_error(f'no spec entry for registered logic {name}')
            continue
        # value set / designated set (concrete comparison of finite sets)
        obligations += 2
        if not S.values_agree:
            rep.violation(
                f'C07|{name}|values', f'{name}: values {S.names} != spec {S.spec_values}',
                dict(kind='values', logic=name, expected=S.spec_values))
            continue
        discharged += 1
        if S.impl_designated != S.spec_designated:
            rep.violation(
                f'C07|{name}|designated',
                f'{name}: designated {[S.names[i] for i in S.impl_designated]} != '
                f'spec {[S.names[i] for i in S.spec_designated]}',
                dict(kind='designated', logic=name,
                     expected=[S.names[i] for i in S.spec_designated]))
        else:
            discharged += 1
        # impl == spec per operator
        for opname in spec.OPERATORS:
            arity = 1 if opname in spec.OPERATORS_1 else 2
            args = (a, b)[:arity]
            obligations += 1
            tuples, last = diff_query(
                S, arity, S.tf('impl', opname, *args), S.tf('spec', opname, *args))
            if last == z3.unknown:
                rep.harness_error(f'z3 unknown on {name} {opname}')
                continue
            if not tuples:
                discharged += 1
                if len(samples) < 6:
                    samples.append(dict(
                        obligation='impl==spec', logic=name, operator=opname,
                        result='unsat', table={
                            ','.join(S.names[i] for i in k): S.names[v]
                            for k, v in S.impl[opname].items()}))
                continue
            tuples.sort()
            tnames = [''.join(S.names[i] for i in t) for t in tuples]
            detail = [dict(
                args=[S.names[i] for i in t],
                impl=S.names[S.impl[opname][t]],
                spec=S.names[S.spec[opname][t]]) for t in tuples]
            rep.violation(
                f'C07|{name}|{opname}|{",".join(tnames)}',
                f'{name} {opname}: table differs from the specification at '
                + '; '.join(f"{d['args']}: impl {d['impl']}, spec {d['spec']}" for d in detail),
                dict(kind='table', logic=name, operator=opname, entries=detail))
        # definitional identities on the implementation's own tables
        for idname, (opname, build) in IDENTITIES.items():
            obligations += 1
            tuples, last = diff_query(S, 2, S.tf('impl', opname, a, b), build(S, a, b))
            if last == z3.unknown:
                rep.harness_error(f'z3 unknown on {name} {idname}')
            elif tuples:
                tnames = [''.join(S.names[i] for i in t) for t in sorted(tuples)]
                rep.violation(
                    f'C07|{name}|identity:{idname}|{",".join(tnames)}',
                    f'{name}: defined operator violates {idname} at {tnames}',
                    dict(kind='identity', logic=name, identity=idname,
                         tuples=[[S.names[i] for i in t] for t in sorted(tuples)]))
            else:
                discharged += 1
        if S.base not in NATIVE_ASSERTION:
            obligations += 1
            tuples, last = diff_query(S, 1, S.tf('impl', 'Assertion', a), a)
            if tuples:
                tnames = [S.names[t[0]] for t in sorted(tuples)]
                rep.violation(
                    f'C07|{name}|identity:Assertion=a|{",".join(tnames)}',
                    f'{name}: assertion is not transparent at {tnames}',
                    dict(kind='identity', logic=name, identity='Assertion=a',
                         tuples=[[x] for x in tnames]))
            elif last == z3.unknown:
                rep.harness_error(f'z3 unknown on {name} assertion')
            else:
                discharged += 1
    # modal extension == base logic, on impl tables
    for name, S in sems.items():
        bname = base_logic_name(S)
        if bname is None:
            continue
        if bname not in sems:
            rep.harness_error(f'{name}: documented base logic {bname} is not registered')
            continue
        B = sems[bname]
        for opname in spec.OPERATORS:
            obligations += 1
            arity = 1 if opname in spec.OPERATORS_1 else 2
            args = (a, b)[:arity]
            if S.names != B.names:
                rep.violation(
                    f'C07|{name}|modal-base|values', f'{name}: values differ from base {bname}',
                    dict(kind='modalbase', logic=name, base=bname, operator=opname))
                continue
            tuples, last = diff_query(
                S, arity, S.tf('impl', opname, *args), B.tf('impl', opname, *args))
            if tuples:
                tnames = [''.join(S.names[i] for i in t) for t in sorted(tuples)]
                rep.violation(
                    f'C07|{name}|modal-base:{opname}|{",".join(tnames)}',
                    f'{name} {opname}: differs from its base logic {bname} at {tnames}',
                    dict(kind='modalbase', logic=name, base=bname, operator=opname,
                         tuples=[[S.names[i] for i in t] for t in sorted(tuples)]))
            elif last == z3.unknown:
                rep.harness_error(f'z3 unknown on {name} modal-base {opname}')
            else:
                discharged += 1
    # the published tables: Model.truth_table(op) in both orientations, asked in
    # alternating order, must be the function the truth function computes
    from pytableaux.lang import Operator
    for name, S in sems.items():
        Model = S.logic.Model
        for opname in spec.OPERATORS:
            op = Operator[opname]
            arity = op.arity
            args = (a, b)[:arity]
            calls = [('default', {}), ('reverse', dict(reverse=True)), ('default-again', {})]
            if hash(name + opname) % 2:
                calls = [calls[1], calls[0], calls[1]]
            for label, kw in calls:
                obligations += 1
                try:
                    tt = Model.truth_table(op, **kw)
                    mapping = {tuple(S.idx[x.name] for x in k): S.idx[v.name] for k, v in tt.mapping.items()}
                    columns = {tuple(S.idx[x.name] for x in k): S.idx[v.name]
                               for k, v in zip(tt.inputs, tt.outputs)}
                except Exception as e:  # noqa: BLE001
                    rep.violation(f'C07|{name}|truth_table:{opname}|{label}',
                                  f'{name} truth_table({opname}, {kw}) raised {type(e).__name__}: {e}',
                                  dict(kind='truth_table', logic=name, operator=opname, reverse=bool(kw)))
                    continue
                if len(mapping) != S.n ** arity or columns != mapping:
                    rep.violation(f'C07|{name}|truth_table:{opname}|{label}',
                                  f'{name} truth_table({opname}, {kw}): inputs/outputs columns and mapping differ '
                                  'or are incomplete',
                                  dict(kind='truth_table', logic=name, operator=opname, reverse=bool(kw)))
                    continue
                tuples, last = diff_query(S, arity, ite_table(mapping, args), S.tf('impl', opname, *args))
                if tuples:
                    tnames = [''.join(S.names[i] for i in t) for t in sorted(tuples)]
                    rep.violation(f'C07|{name}|truth_table:{opname}|{label}',
                                  f'{name} truth_table({opname}, {kw}) differs from the truth function at {tnames}',
                                  dict(kind='truth_table', logic=name, operator=opname, reverse=bool(kw)))
                elif last == z3.unknown:
                    rep.harness_error(f'z3 unknown on {name} truth_table {opname}')
                else:
                    discharged += 1
    # vacuity / sensitivity witness: a perturbed table must be caught
    S = sems.get('CPL')
    witnesses = 0
    if S is not None:
        for opname in spec.OPERATORS_2:
            t = dict(S.impl[opname])
            k = next(iter(t))
            t[k] = (t[k] + 1) % S.n
            s = z3.Solver()
            s.add(S.dom(a), S.dom(b), ite_table(t, (a, b)) != S.tf('spec', opname, a, b))
            if stats.check(s) == z3.sat:
                witnesses += 1
        if witnesses != len(spec.OPERATORS_2):
            rep.harness_error('sensitivity witness failed: a perturbed table was not detected')
    entries = sum(len(t) for S in sems.values() for t in S.impl.values())
    rep.coverage = dict(
        obligations=obligations, discharged=discharged,
        checker_cmd=f'z3 {z3.get_version_string()} (python API), QF_LIA over finite value domains',
        trusted_base=['z3', 'spec/tables.py (independent oracle)', 'engine/semz3.py ite encoding',
                      'CPython evaluation of Model.truth_function on every tuple'],
        exhaustive=True,
        logics=len(sems), table_entries=entries,
        functions_encoded=['<logic>.Model.truth_function.<Operator> for all registered logics',
                           'Meta.values', 'Meta.designated_values'],
        file_hashes=file_hashes(FILES),
        bounds='none: the value space is finite (<=16 tuples per operator) and covered completely',
        solver=stats.asdict(), sensitivity_witnesses=witnesses,
        refuted=obligations - discharged,
        samples=samples)
    rep.assumptions = [
        'spec/tables.py is the documented/literature table of each logic',
        'logic name determines its base logic and frame (spec.logic_info)',
        'modal operators are not truth-functional and are outside this property']
    return rep


def replay(data):
    'Concrete re-evaluation through the public API, no z3.'
    registry.import_all()
    logic = registry(data['logic'])
    tf = logic.Model.truth_function
    vals = logic.Meta.values
    kind = data['kind']
    if kind == 'values':
        got = [v.name for v in vals]
        return got != data['expected'], f'values {got}, expected {data["expected"]}'
    if kind == 'designated':
        got = sorted(v.name for v in logic.Meta.designated_values)
        return got != sorted(data['expected']), f'designated {got}, expected {data["expected"]}'
    if kind == 'table':
        from pytableaux.lang import Operator
        tt = logic.Model.truth_table(Operator[data['operator']])
        bad = []
        for e in data['entries']:
            key = tuple(vals[x] for x in e['args'])
            got = tt.mapping[key].name
            want = spec.op(spec.logic_info(data['logic'])['base'], data['operator'])(*e['args'])
            if got != want:
                bad.append((e['args'], got, want))
        return bool(bad), f'{data["logic"]} {data["operator"]}: (args, impl, spec) = {bad}'
    if kind == 'identity':
        bad = []
        for t in data['tuples']:
            x = [vals[v] for v in t]
            idn = data['identity']
            if idn.startswith('MaterialConditional'):
                lhs, rhs = tf.MaterialConditional(*x), tf.Disjunction(tf.Negation(x[0]), x[1])
            elif idn.startswith('MaterialBiconditional'):
                lhs = tf.MaterialBiconditional(*x)
                rhs = tf.Conjunction(tf.MaterialConditional(*x), tf.MaterialConditional(x[1], x[0]))
            elif idn.startswith('Biconditional'):
                lhs = tf.Biconditional(*x)
                rhs = tf.Conjunction(tf.Conditional(*x), tf.Conditional(x[1], x[0]))
            else:
                lhs, rhs = tf.Assertion(x[0]), x[0]
            if lhs.name != rhs.name:
                bad.append((t, lhs.name, rhs.name))
        return bool(bad), f'{data["logic"]} {data["identity"]}: {bad}'
    if kind == 'truth_table':
        from pytableaux.lang import Operator
        op = Operator[data['operator']]
        bad = []
        for kw in ({}, dict(reverse=True), {}, dict(reverse=True)):
            tt = logic.Model.truth_table(op, **kw)
            for k, v in tt.mapping.items():
                want = getattr(tf, op.name)(*k)
                if v.name != want.name:
                    bad.append((kw, [x.name for x in k], v.name, want.name))
            for k, v in zip(tt.inputs, tt.outputs):
                if tt.mapping[k].name != v.name:
                    bad.append((kw, 'columns', [x.name for x in k], v.name))
            n = len(logic.Meta.values) ** op.arity
            if not (len(tt.mapping) == len(tuple(tt.inputs)) == len(tuple(tt.outputs)) == n):
                bad.append((kw, 'incomplete', len(tt.mapping), len(tuple(tt.inputs)), len(tuple(tt.outputs)), n))
        return bool(bad), f'{data["logic"]} truth_table({data["operator"]}): {bad[:3]}'
    if kind == 'modalbase':
        base = registry(data['base'])
        bad = []
        for t in data.get('tuples', []):
            x = [vals[v] for v in t]
            y = [base.Meta.values[v] for v in t]
            l = getattr(tf, data['operator'])(*x).name
            r = getattr(base.Model.truth_function, data['operator'])(*y).name
            if l != r:
                bad.append((t, l, r))
        if not data.get('tuples'):
            return [v.name for v in vals] != [v.name for v in base.Meta.values], 'value sets differ'
        return bool(bad), f'{data["logic"]} vs {data["base"]} {data["operator"]}: {bad}'
    return False, f'unknown replay kind {kind}'
