"""C10 -- provability obeys the structural laws of a consequence relation.

* renaming (solver-decided part): for first-order argument shapes the constants
  are built by the real constructor from z3 integers (index 0..3, unbounded
  subscript, pairwise distinct) and the real prover runs under pysymex; one
  exploration partitions *all* injective namings of the constants into the
  order/equality types the code distinguishes, and the outcome classes of all
  paths must coincide.  For sentence letters, predicates and bound variables
  (and all sorts together) a fixed set of adverse injective renamings is
  applied concretely (shift of subscripts, reversal of indexes, inversion of
  the order of first appearance, swap of the first two symbols).
* reflexivity: for every sentence S of the families, S |- S is valid.
* monotonicity: if Gamma |- C is valid then Gamma, P |- C is not refuted by a
  limit-free open branch, for P from a pool of sentences.
Outcomes produced only by limits are excluded.
"""
from __future__ import annotations

import multiprocessing as mp

import z3

from engine import lexsym
from engine.main import Report, file_hashes
from engine.pysymex import Explorer, SymDriver, model_values
from families import args as fam
from families import prover

FILES = ['pytableaux/proof/tableaux.py', 'pytableaux/proof/common.py', 'pytableaux/proof/helpers.py',
         'pytableaux/lang/lex.py']

POOL = ['a', 'Na', 'Kab', 'Fm', 'NFm', 'VxFx', 'SxGx', 'Ma', 'LNa', 'Imn', 'e', 'AaNa', 'KaNa']


def symbols(arg):
    'symbols by sort in order of first appearance'
    from pytableaux.lang import Atomic, Constant, Predicate, Variable
    order = dict(a=[], c=[], v=[], p=[])

    def walk(s):
        t = type(s).__name__
        if t == 'Atomic':
            if s not in order['a']:
                order['a'].append(s)
        elif t == 'Predicated':
            if not s.predicate.is_system and s.predicate not in order['p']:
                order['p'].append(s.predicate)
            for p in s.params:
                k = 'c' if type(p) is Constant else 'v'
                if p not in order[k]:
                    order[k].append(p)
        elif t == 'Quantified':
            if s.variable not in order['v']:
                order['v'].append(s.variable)
            walk(s.sentence)
        else:
            for x in s.operands:
                walk(x)
    for s in arg:
        walk(s)
    return order


def apply_map(arg, m):
    from pytableaux.lang import Argument, Atomic, Constant, Predicate, Variable

    def f(s):
        t = type(s).__name__
        if t == 'Atomic':
            return m['a'].get(s, s)
        if t == 'Predicated':
            pred = s.predicate if s.predicate.is_system else m['p'].get(s.predicate, s.predicate)
            return pred(tuple((m['c'] if type(p) is Constant else m['v']).get(p, p) for p in s.params))
        if t == 'Quantified':
            return s.quantifier(m['v'].get(s.variable, s.variable), f(s.sentence))
        return s.operator(*[f(x) for x in s.operands])
    return Argument(f(arg.conclusion), [f(p) for p in arg.premises])


def renamings(arg):
    from pytableaux.lang import Atomic, Constant, Predicate, Variable
    order = symbols(arg)
    cls = dict(a=Atomic, c=Constant, v=Variable)
    maxi = dict(a=4, c=3, v=3, p=3)

    def mk(k, old, i, s):
        if k == 'p':
            return Predicate(i, s, old.arity)
        return cls[k](i, s)
    out = {}
    out['shift'] = {k: {x: mk(k, x, x.index, x.subscript + 1) for x in xs} for k, xs in order.items()}
    out['reverse-index'] = {k: {x: mk(k, x, maxi[k] - x.index, x.subscript) for x in xs}
                            for k, xs in order.items()}
    inv = {}
    for k, xs in order.items():
        n = len(xs)
        inv[k] = {}
        for j, x in enumerate(xs):
            r = n - 1 - j          # first appearing symbol gets the highest name
            inv[k][x] = mk(k, x, r % (maxi[k] + 1), r // (maxi[k] + 1))
    out['invert-appearance-order'] = inv
    sw = {}
    for k, xs in order.items():
        sw[k] = {}
        if len(xs) >= 2:
            a, b = xs[0], xs[1]
            if k != 'p' or a.arity == b.arity:
                sw[k] = {a: b, b: a}
    out['swap-first-two'] = sw
    hi = {k: {x: mk(k, x, x.index, 10 * (len(xs) - j)) for j, x in enumerate(xs)} for k, xs in order.items()}
    out['descending-subscripts'] = hi
    # one sort at a time: symbols of different sorts that share coordinates must not interact
    for k in ('a', 'c', 'v', 'p'):
        if order[k]:
            m1 = {kk: {} for kk in order}
            m1[k] = {x: mk(k, x, x.index, x.subscript + 2) for x in order[k]}
            out[f'shift-only-{k}'] = m1
    return out


def concrete_unit(arg_):
    name, shapes, seed = arg_
    from pytableaux.lang import Argument
    from pytableaux.logics import registry
    registry.import_all()
    lexsym.reset_cache()
    lexsym.remove_hash_abstraction()
    out = dict(logic=name, runs=0, bad=[], samples=[], reflexive=0, monotone=0, renamed=0)
    sentences = []
    for argstr in shapes:
        arg = Argument(argstr)
        for s in arg:
            if s not in sentences:
                sentences.append(s)
        try:
            base = prover.build(name, arg, seed, max_steps=400)
        except Exception as e:  # noqa: BLE001
            out['bad'].append(dict(kind='raise', argstr=argstr, why=f'{type(e).__name__}: {e}', rules=[]))
            continue
        out['runs'] += 1
        cls0 = prover.outcome(base)
        rules0 = prover.rules_applied(base)
        # renaming
        if cls0 != 'limit':
            for rname, m in renamings(arg).items():
                arg2 = apply_map(arg, m)
                t2 = prover.build(name, arg2, seed, max_steps=400)
                out['runs'] += 1
                out['renamed'] += 1
                c2 = prover.outcome(t2)
                if c2 != 'limit' and c2 != cls0:
                    out['bad'].append(dict(kind='renaming', argstr=argstr, other=arg2.argstr(),
                                           why=f'{cls0} becomes {c2} under the renaming {rname}',
                                           rules=sorted(set(rules0) | set(prover.rules_applied(t2)))))
        # monotonicity
        if cls0 == 'valid':
            for pstr in POOL:
                from pytableaux.lang import Parser
                try:
                    P = Parser('polish', arg.predicates())(pstr)
                except Exception:  # noqa: BLE001
                    continue
                arg3 = Argument(arg.conclusion, list(arg.premises) + [P])
                t3 = prover.build(name, arg3, seed, max_steps=400)
                out['runs'] += 1
                out['monotone'] += 1
                if prover.outcome(t3) == 'invalid':
                    out['bad'].append(dict(kind='monotonicity', argstr=argstr, other=arg3.argstr(),
                                           why=f'valid, but refuted after adding the premise {pstr}',
                                           rules=sorted(set(rules0) | set(prover.rules_applied(t3)))))
        if len(out['samples']) < 1:
            out['samples'].append(dict(logic=name, argument=argstr, outcome=cls0,
                                       renamings=[a.argstr() for a in (apply_map(arg, m) for m in renamings(arg).values())][:3]))
    for s in sentences:
        arg = Argument(s, [s])
        t = prover.build(name, arg, seed, max_steps=400)
        out['runs'] += 1
        out['reflexive'] += 1
        if prover.outcome(t) == 'invalid':
            out['bad'].append(dict(kind='reflexivity', argstr=arg.argstr(), other=None,
                                   why='S |- S is refuted by a limit-free open branch',
                                   rules=prover.rules_applied(t)))
    return out


# --- symbolic renaming of constants ------------------------------------------------

def symbolic_fn(drv, name, argstr, seed):
    from pytableaux.lang import Argument, Constant
    lexsym.reset_cache()
    arg = Argument(argstr)
    order = symbols(arg)['c']
    m = dict(a={}, v={}, p={}, c={})
    for j, c in enumerate(order):
        m['c'][c] = Constant(drv.int(f'c{j}_i'), drv.int(f'c{j}_s'))
    arg2 = apply_map(arg, m)
    tab = prover.build(name, arg2, seed, max_steps=300)
    return dict(cls=prover.outcome(tab), steps=len(tab.history), rules=prover.rules_applied(tab))


def symbolic_unit(arg_):
    name, shapes, seed, budget = arg_
    from pytableaux.lang import Argument
    from pytableaux.logics import registry
    registry.import_all()
    lexsym.install_hash_abstraction()
    drv = SymDriver()
    out = dict(logic=name, paths=0, decisions=0, queries=0, bad=[], samples=[], inexhausted=[], args=0,
               validated=0, mismatch=[])
    for argstr in shapes:
        lexsym.reset_cache()
        n = len(symbols(Argument(argstr))['c'])
        if n < 2 or n > 3:
            continue
        pre = []
        for j in range(n):
            i, s = z3.Int(f'c{j}_i'), z3.Int(f'c{j}_s')
            pre += [i >= 0, i <= 3, s >= 0]
            for k in range(j):
                pre.append(z3.Or(i != z3.Int(f'c{k}_i'), s != z3.Int(f'c{k}_s')))
        ex = Explorer(pre, max_paths=4000, max_seconds=budget)
        paths = ex.run(lambda: symbolic_fn(drv, name, argstr, seed))
        st = ex.stats()
        out['args'] += 1
        out['paths'] += st['paths']
        out['decisions'] += st['decisions']
        out['queries'] += st['queries']
        if not st['exhausted']:
            out['inexhausted'].append(argstr)
        classes = {}
        rules = set()
        for p in paths:
            if p.kind != 'ok':
                classes.setdefault(f'raised {type(p.value).__name__}', p)
                continue
            rules |= set(p.value['rules'])
            classes.setdefault(p.value['cls'], p)
        # translator validation: the concrete run on the witness of a path must
        # give the outcome the path reports (first, middle and last path)
        from pytableaux.lang import Constant
        lexsym.reset_cache()
        lexsym.remove_hash_abstraction()
        try:
            arg0 = Argument(argstr)
            order = symbols(arg0)['c']
            for p in ([paths[0], paths[len(paths) // 2], paths[-1]] if paths else []):
                if p.kind != 'ok':
                    continue
                wit = model_values(ex.witness(p))
                m = dict(a={}, v={}, p={}, c={})
                for j, c in enumerate(order):
                    m['c'][c] = Constant(int(wit.get(f'c{j}_i', 0)), int(wit.get(f'c{j}_s', 0)))
                t = prover.build(name, apply_map(arg0, m), seed, max_steps=300)
                out['validated'] += 1
                # the number of steps may differ: with the hash abstraction sets of constants iterate
                # in insertion order, with real hashes in hash order (one more tie-break source)
                if prover.outcome(t) != p.value['cls']:
                    out['mismatch'].append(f'{argstr} {wit}: path says {p.value["cls"]}, '
                                           f'concrete run {prover.outcome(t)}')
        finally:
            lexsym.reset_cache()
            lexsym.install_hash_abstraction()
        real = {k: v for k, v in classes.items() if k != 'limit'}
        if len(real) > 1:
            wits = {k: model_values(ex.witness(p)) for k, p in real.items()}
            out['bad'].append(dict(kind='renaming-symbolic', argstr=argstr, other=None,
                                   why=f'outcome depends on the names of the constants: {wits}',
                                   rules=sorted(rules), witnesses=wits))
        if len(out['samples']) < 1 and paths:
            out['samples'].append(dict(logic=name, argument=argstr, naming_classes=len(paths),
                                       outcomes=sorted(classes),
                                       a_path_condition=[str(c) for c in paths[-1].pc[:6]]))
    lexsym.reset_cache()
    lexsym.remove_hash_abstraction()
    return out


def plan(ctx):
    from pytableaux.logics import registry
    registry.import_all()
    names = sorted(registry(n).Meta.name for n in registry.all())
    pool = fam.examples() + fam.M + fam.Q + fam.MQ
    units = []
    for name in names:
        sel = fam.select(pool, 10 if ctx.quick else 40, ctx.seed + 9, name) + ['a:NFn:Gm:SxFx', 'b:Cab:a']
        sel = list(dict.fromkeys(sel))
        n = 2 if ctx.quick else 6
        for k in range(n):
            units.append((name, sel[k::n], ctx.seed))
    sym_logics = ['CFOL', 'K3', 'K', 'FDE', 'S5', 'KLP', 'K3WQ', 'MH'] if ctx.quick else names
    qshapes = [a for a in fam.Q + fam.MQ if True]
    sunits = []
    for name in sym_logics:
        n = 2 if ctx.quick else 4
        for k in range(n):
            sunits.append((name, qshapes[k::n], ctx.seed, 200 if ctx.quick else 900))
    return units, sunits


def run(ctx):
    rep = Report('C10', 'model_checking')
    units, sunits = plan(ctx)
    with mp.Pool(ctx.jobs) as pool:
        ar = pool.map_async(symbolic_unit, sunits, chunksize=1)
        cres = pool.map(concrete_unit, units, chunksize=1)
        sres = ar.get()
    runs = refl = mono = ren = 0
    paths = trans = sargs = validated = 0
    samples = []
    for r in cres:
        runs += r['runs']
        refl += r['reflexive']
        mono += r['monotone']
        ren += r['renamed']
        if len(samples) < 3:
            samples += r['samples']
        for b in r['bad']:
            key = prover.attribute('C10', r['logic'], b['argstr'], b['rules'], b['kind'])
            rep.violation(key, f'{r["logic"]} {b["argstr"]}: {b["why"]}' + (f' [{b["other"]}]' if b.get('other') else ''),
                          dict(kind=b['kind'], logic=r['logic'], argstr=b['argstr'], other=b.get('other'),
                               seed=ctx.seed))
    for r in sres:
        paths += r['paths']
        trans += r['decisions']
        sargs += r['args']
        if len(samples) < 6:
            samples += r['samples']
        validated += r['validated']
        for mm in r['mismatch'][:3]:
            rep.harness_error(f'{r["logic"]}: proxy run and concrete run disagree: {mm}')
        for a in r['inexhausted']:
            rep.inconclusive.append(f'{r["logic"]} {a}: naming classes not exhausted')
        for b in r['bad']:
            key = prover.attribute('C10', r['logic'], b['argstr'], b['rules'], b['kind'])
            rep.violation(key, f'{r["logic"]} {b["argstr"]}: {b["why"]}',
                          dict(kind=b['kind'], logic=r['logic'], argstr=b['argstr'], seed=ctx.seed,
                               witnesses=b['witnesses']))
    rep.coverage = dict(
        states=paths + runs, transitions=trans + runs, traces_validated_against_impl=validated, samples=samples,
        symbolic_naming_arguments=sargs, symbolic_naming_paths=paths,
        concrete_runs=runs, reflexivity_cases=refl, monotonicity_cases=mono, concrete_renamings=ren,
        bounds=dict(symbolic='first-order shapes with 2-3 constants, all injective namings (index 0..3, any '
                             'subscript), 8 logics quick / all thorough',
                    concrete='5 adverse renamings of all sorts; 12 arguments per logic quick / 72 thorough',
                    monotonicity_pool=POOL, max_steps=400),
        functions_executed=['Tableau.build', 'Branch.append/new_constant', 'NodeConsts/MaxConsts helpers',
                            'Lexical.orderitems (tie-breaks)'],
        stubs=['lexical hash abstraction (symbolic part)'],
        file_hashes=file_hashes(FILES), exhaustive=not rep.inconclusive,
        rule='paths = order/equality types of the constants\' names per argument shape')
    rep.assumptions = ['outcomes caused only by limits are disregarded']
    return rep


def replay(data):
    from pytableaux.lang import Argument
    from pytableaux.logics import registry
    registry.import_all()
    name, seed = data['logic'], data.get('seed', 0)
    kind = data['kind']
    if kind == 'renaming-symbolic':
        from pytableaux.lang import Constant
        arg = Argument(data['argstr'])
        order = symbols(arg)['c']
        outs = {}
        for cls, wit in data['witnesses'].items():
            m = dict(a={}, v={}, p={}, c={})
            for j, c in enumerate(order):
                m['c'][c] = Constant(int(wit.get(f'c{j}_i', 0)), int(wit.get(f'c{j}_s', 0)))
            t = prover.build(name, apply_map(arg, m), seed, max_steps=300)
            outs[cls] = prover.outcome(t)
        real = {v for v in outs.values() if v != 'limit'}
        return len(real) > 1, f'{name} {data["argstr"]}: outcomes per naming {outs}'
    a = prover.outcome(prover.build(name, Argument(data['argstr']), seed, max_steps=400))
    if kind == 'reflexivity':
        return a == 'invalid', f'{name} {data["argstr"]}: {a}'
    b = prover.outcome(prover.build(name, Argument(data['other']), seed, max_steps=400))
    if kind == 'renaming':
        return a != b and 'limit' not in (a, b), f'{name}: {data["argstr"]} {a}; {data["other"]} {b}'
    if kind == 'monotonicity':
        return a == 'valid' and b == 'invalid', f'{name}: {data["argstr"]} {a}; {data["other"]} {b}'
    return False, 'unknown kind'
