"""C16 -- a tableau's bookkeeping is consistent at every step.

"At every prefix of the step history" is made symbolic through the step
limit: the real `Tableau` is built with ``max_steps = k`` for a z3 integer k
(all of Z); pysymex partitions Z into the n+2 classes the code distinguishes
(k <= 0, k = 1, ..., k > n), and each class is a complete real run that stops
after that prefix and *finishes* (tree and statistics are built at finish,
so only a cut makes them observable for a prefix).  Event monitors record the
per-step facts during the run; after the run the public state is compared
with recomputed values (families/tabrun.py).
"""
from __future__ import annotations

import multiprocessing as mp
import re

import z3

from engine.main import Report, file_hashes
from engine.pysymex import (Explorer, ReplayDriver, SymDriver, model_values)
from engine.tabutil import reset_order
from families import args as fam
from families.tabrun import Broken, Monitor, check_all

FILES = ['pytableaux/proof/tableaux.py', 'pytableaux/proof/common.py',
         'pytableaux/proof/helpers.py', 'pytableaux/tools/events.py']


def build_with_limit(drv, logic, argstr, seed, opts=None):
    from pytableaux.lang import Argument
    from pytableaux.proof import Tableau
    reset_order(seed)
    k = drv.int('k')
    tab = Tableau(None, None, max_steps=k, **(opts or {}))
    mon = Monitor(tab)
    tab.logic = logic
    tab.argument = Argument(argstr)
    # build() is `for _ in stepiter(): pass`; the loop is spelled out so that the
    # return values of the public step API are observed
    while True:
        entry = tab.step()
        if entry is None:
            break
        if not tab.history or tab.history[-1] is not entry:
            raise Broken('step() returned an entry that is not the one recorded in the history')
        if tab.history.count(entry) != 1:
            raise Broken('a step is recorded more than once')
        if entry.rule is not entry.target.rule:
            raise Broken('returned entry names a rule other than its target\'s')
    if not tab.finished:
        raise Broken('step() returned None but the tableau is not finished')
    return tab, mon


def fn(drv, logic, argstr, seed, sym_opts=False):
    opts = None
    if sym_opts:
        opts = dict(is_group_optim=drv.bool('is_group_optim'), is_rank_optim=drv.bool('is_rank_optim'))
    tab, mon = build_with_limit(drv, logic, argstr, seed, opts)
    check_all(tab, mon)
    if tab.flag.TIMING_INACCURATE in tab.flag:
        raise Broken('tableau flagged TIMING_INACCURATE although every step went through step()')
    return (len(tab.history), tab.valid, tab.invalid, tab.premature)


def pair_unit(arg):
    logic, argstrs, seed, budget, maxlen = arg[:5]
    nsym = arg[5] if len(arg) > 5 else 0
    from pytableaux.logics import registry
    registry.import_all()
    out = dict(logic=logic, pairs=0, paths=0, decisions=0, queries=0, solver_time=0.0,
               bad=[], inexhausted=[], samples=[], replays=0, maxlen=0)
    drv = SymDriver()
    out['skipped_long'] = []
    from pytableaux.lang import Argument
    from pytableaux.proof import Tableau
    for ai, argstr in enumerate(argstrs):
        sym_opts = ai < nsym
        reset_order(seed)
        tab0 = Tableau(logic, Argument(argstr))
        while tab0.step() is not None and len(tab0.history) <= maxlen:
            pass
        natural = len(tab0.history)
        if natural > maxlen:
            # outside the stated bound on proof length (cost grows quadratically)
            out['skipped_long'].append((argstr, natural))
            continue
        ex = Explorer((), max_paths=1600, max_seconds=budget)
        paths = ex.run(lambda: fn(drv, logic, argstr, seed, sym_opts))
        st = ex.stats()
        out['pairs'] += 1
        out['paths'] += st['paths']
        out['decisions'] += st['decisions']
        out['queries'] += st['queries']
        out['solver_time'] += st['solver_time_s']
        if not st['exhausted']:
            out['inexhausted'].append(argstr)
        lens = [p.value[0] for p in paths if p.kind == 'ok']
        if lens:
            out['maxlen'] = max(out['maxlen'], max(lens))
        for p in paths:
            if p.kind != 'ok':
                wit = model_values(ex.witness(p))
                out['bad'].append(dict(argstr=argstr, k=wit.get('k', 0),
                                       opts={n: bool(wit.get(n, True)) for n in
                                             ('is_group_optim', 'is_rank_optim')} if sym_opts else None,
                                       error=f'{type(p.value).__name__}: {p.value}',
                                       is_broken=isinstance(p.value, Broken)))
        if len(out['samples']) < 2 and paths:
            out['samples'].append(dict(
                logic=logic, argument=argstr,
                classes=[dict(path_condition=[str(c) for c in p.pc], outcome=str(p.value))
                         for p in paths[:4]]))
    return out


def plan(ctx):
    from pytableaux.logics import registry
    registry.import_all()
    names = sorted(registry(n).Meta.name for n in registry.all())
    X = fam.examples()
    pool = X + fam.M + fam.Q + fam.MQ
    special = ['a:NFn:Gm:SxFx', 'KMaMb:Mc', 'AKabKcd:e', 'b:VxFx:SxGx', 'LMa:LLMa',
               # repeated premises, premise equal to the conclusion, deep forks
               'b:a:a', 'c:Aab:Na:Aab', 'a:a', 'e:Aab:Acd:Aea']
    units = []
    for name in names:
        if ctx.quick:
            sel = fam.select(pool, 14, ctx.seed, name) + special
        else:
            sel = fam.select(pool, 40, ctx.seed, name) + special + fam.random_args(ctx.seed, 8)
        # the first arguments are explored with both option flags symbolic (4 x the classes of k)
        sel = list(dict.fromkeys(special[:4] + sel))
        nchunk = 2 if ctx.quick else 4
        for c in range(nchunk):
            # every chunk starts with its share of the fixed specials (explored with symbolic options)
            units.append((name, sel[c::nchunk], ctx.seed, 120 if ctx.quick else 600, 40 if ctx.quick else 80,
                          2 if ctx.quick else 3))
    return units


def run(ctx):
    rep = Report('C16', 'model_checking')
    units = plan(ctx)
    with mp.Pool(ctx.jobs) as pool:
        results = pool.map(pair_unit, units, chunksize=1)
    paths = trans = queries = pairs = 0
    st_time = 0.0
    samples = []
    maxlen = 0
    skipped = []
    for r in results:
        skipped += [f'{r["logic"]} {a} ({n} steps)' for a, n in r['skipped_long']]
        paths += r['paths']
        trans += r['decisions']
        queries += r['queries']
        st_time += r['solver_time']
        pairs += r['pairs']
        samples += r['samples'][:1]
        maxlen = max(maxlen, r['maxlen'])
        for a in r['inexhausted']:
            rep.inconclusive.append(f'{r["logic"]} {a}: step-limit classes not exhausted')
        for b in r['bad']:
            what = re.sub(r'\d+', '#', b['error'])[:120]
            key = f'C16|{what}'
            rep.violation(key, f'{r["logic"]} {b["argstr"]} max_steps={b["k"]} options={b.get("opts")}: '
                               f'{b["error"]}',
                          dict(logic=r['logic'], argstr=b['argstr'], k=b['k'], seed=ctx.seed,
                               opts=b.get('opts'), error=b['error']))
    rep.coverage = dict(
        states=paths, transitions=trans, traces_validated_against_impl=0, samples=samples[:4],
        pairs=pairs, longest_proof=maxlen, skipped_longer_than_bound=skipped[:40],
        skipped_count=len(skipped),
        bounds=dict(arguments='examples + modal + first-order shapes (families/args.py), '
                    + ('14 per logic by seed + 9 fixed' if ctx.quick else '40 per logic by seed + 9 fixed + 8 random'),
                    step_limit='k ranges over all integers (symbolic); one class per prefix',
                    options=f'is_group_optim / is_rank_optim symbolic on the first {4 if ctx.quick else 12} '
                            'arguments per logic, defaults elsewhere',
                    api='explicit step() loop (what build() does), return values compared with the history',
                    proof_length=f'natural length <= {40 if ctx.quick else 80} steps',
                    order_seed=ctx.seed),
        solver=dict(queries=queries, solver_time_s=round(st_time, 2)),
        functions_executed=['Tableau.__init__/logic/argument setters/build_trunk/step/next/finish',
                            'Tableau.__listen_on listeners', 'Tableau.Tree._build*', 'Tableau._compute_stats',
                            'Branch.append/copy/tick/close', 'AdzHelper._apply'],
        file_hashes=file_hashes(FILES), exhaustive=not rep.inconclusive,
        rule='paths = classes of the symbolic step limit per (logic, argument)')
    rep.assumptions = ['argument shapes and the node-order seed are enumerated, not symbolic',
                       'trunk expectation from the documented construction (spec.logic_info)']
    return rep


def replay(data):
    from pytableaux.logics import registry
    registry.import_all()
    opts = data.get('opts')
    drv = ReplayDriver([], dict(k=data['k'], **(opts or {})))
    try:
        fn(drv, data['logic'], data['argstr'], data.get('seed', 0), sym_opts=opts is not None)
    except Broken as e:
        return True, f'{data["logic"]} {data["argstr"]} max_steps={data["k"]}: {e}'
    except Exception as e:  # noqa: BLE001
        return True, f'{data["logic"]} {data["argstr"]}: {type(e).__name__}: {e}'
    return False, 'bookkeeping consistent in replay'
