"""C02 -- an 'invalid' verdict comes with a genuine countermodel.

For every argument shape of the families and every logic the real prover runs
(with model building on, two tie-break seeds, default and adverse options).
On every run that ends `invalid`, for every open branch without a limit flag:

 1. z3 decides whether *any* interpretation of the specification semantics
    satisfies all nodes of the branch (worlds and constants of the branch are
    names with arbitrary denotations, access pairs closed under the frame
    condition).  `unsat` means the branch should have closed or is not
    saturated -- a violation that does not depend on the model builder.
 2. the library's own model (`Model.read_branch`) is evaluated with the
    library's evaluator on every node of the branch (designation and world),
    and `is_countermodel_to(argument)` must be True.
"""
from __future__ import annotations

import multiprocessing as mp
import re

from engine.main import Report, file_hashes
from engine.semz3 import LogicSem, Stats
from families import args as fam
from families import prover, semrun

FILES = ['pytableaux/models/__init__.py', 'pytableaux/proof/tableaux.py', 'pytableaux/proof/rules.py',
         'pytableaux/proof/helpers.py', 'pytableaux/logics/kfde.py', 'pytableaux/logics/cpl.py']

CONFIGS = [dict(), dict(is_group_optim=False), dict(is_rank_optim=False)]


def unit(arg_):
    name, shapes, seeds = arg_
    from pytableaux.lang import Argument
    from pytableaux.logics import registry
    registry.import_all()
    S = LogicSem(name)
    stats = Stats()
    out = dict(logic=name, runs=0, invalid_runs=0, branches=0, sat_queries=0, skipped=0, bad=[], unknown=0,
               samples=[])
    for argstr in shapes:
        arg = Argument(argstr)
        has_identity = any(p.is_system for s in arg for p in s.predicates)
        for seed in seeds:
            for cfg in (CONFIGS if seed == seeds[0] else CONFIGS[:1]):
                try:
                    tab = prover.build(name, arg, seed, is_build_models=True, max_steps=600, **cfg)
                except Exception as e:  # noqa: BLE001
                    out['bad'].append(dict(argstr=argstr, seed=seed, cfg=cfg, kind='raise', rules=[],
                                           why=f'build raised {type(e).__name__}: {e}',
                                           identity=has_identity))
                    continue
                out['runs'] += 1
                if prover.outcome(tab) != 'invalid':
                    continue
                out['invalid_runs'] += 1
                rules = prover.rules_applied(tab)
                for b in prover.free_open_branches(tab):
                    out['branches'] += 1
                    st, interp = semrun.branch_satisfiable(S, b, stats)
                    if st == 'skipped':
                        out['skipped'] += 1
                    elif st == 'unknown':
                        out['unknown'] += 1
                    else:
                        out['sat_queries'] += 1
                        if st == 'unsat':
                            out['bad'].append(dict(
                                argstr=argstr, seed=seed, cfg=cfg, kind='unsat-branch', rules=rules,
                                why='an open limit-free branch of a completed tableau is unsatisfiable '
                                    '(it should have closed, or a rule instance was left unapplied): '
                                    + '; '.join(f'{n.get("sentence")}{ {True: "+", False: "-", None: ""}[n.get("designated")]}'
                                                f'@{n.get("world")}' for n in list(b)[:8] if n.get('sentence') is not None),
                                identity=has_identity))
                            break
                    problems = semrun.library_model_check(tab, b)
                    if problems:
                        nb = [p_ for p_ in problems if semrun.NB_MARK in p_]
                        if nb and len(nb) >= len([p_ for p_ in problems if p_.startswith('node ')]):
                            # every ill-valued node is evaluated through an (N,B) cell of the FDE-family
                            # tables: the recorded C07 finding showing up in the countermodel
                            out['bad'].append(dict(argstr=argstr, seed=seed, cfg=cfg, kind='known-table:NB',
                                                   rules=[], why='the library\'s model of an open branch: ' + nb[0],
                                                   identity=has_identity))
                            break
                        out['bad'].append(dict(argstr=argstr, seed=seed, cfg=cfg, kind='model', rules=rules,
                                               why='the library\'s model of an open branch: ' + problems[0],
                                               identity=has_identity))
                        break
                if len(out['samples']) < 2:
                    out['samples'].append(dict(logic=name, argument=argstr, seed=seed, options=cfg,
                                               open_branches=len(tab.open), steps=len(tab.history)))
    out['stats'] = stats.asdict()
    return out


def plan(ctx):
    from pytableaux.logics import registry
    registry.import_all()
    names = sorted(registry(n).Meta.name for n in registry.all())
    pool = fam.examples() + fam.M + fam.Q + fam.MQ
    p1, p2 = fam.prop(1), fam.prop(2)
    special = ['b:La:Lb:MNa', 'LMa:Lb', 'KMaMb:Mc', 'LLMa:LMa:LLb', 'c:Ma:Mb', 'MMa:Ma', 'a:MLa',
               'Hmm:VxHxm', 'SzHzz:SyVxHxy', 'e:LLa:Mb:Mc:Md:Me', 'e:LLa:Mb:Mc:Md', 'Hnm:VxHxm:Gn',
               'Lc:LKMaLc', 'Mb:LMa:Ma:b', 'c:LMa:MKLdNd:Me']
    units = []
    for name in names:
        if ctx.quick:
            sel = fam.select(pool, 35, ctx.seed + 2, name) + fam.select(p1, 25, ctx.seed + 2, name) \
                + fam.select(p2, 25, ctx.seed + 2, name) + special
            seeds = [ctx.seed, ctx.seed + 1]
        else:
            sel = pool + fam.select(p1, 100, ctx.seed, name) + fam.select(p2, 200, ctx.seed, name) \
                + fam.random_args(ctx.seed, 40) + special
            from families import boundary
            sel += boundary.select(name, ctx.seed, want=3, tries=60)
            seeds = [ctx.seed + i for i in range(4)]
        sel = list(dict.fromkeys(sel))
        n = 3 if ctx.quick else 8
        for k in range(n):
            units.append((name, sel[k::n], seeds))
    return units


def run(ctx):
    rep = Report('C02', 'model_checking')
    units = plan(ctx)
    with mp.Pool(ctx.jobs) as pool:
        results = pool.map(unit, units, chunksize=1)
    stats = Stats()
    runs = inv = branches = satq = skipped = 0
    samples = []
    for r in results:
        stats.merge(r['stats'])
        runs += r['runs']
        inv += r['invalid_runs']
        branches += r['branches']
        satq += r['sat_queries']
        skipped += r['skipped']
        if len(samples) < 5:
            samples += r['samples'][:1]
        if r['unknown']:
            rep.inconclusive.append(f'{r["logic"]}: {r["unknown"]} branch queries unknown/timeout')
        for b in r['bad']:
            key = prover.attribute('C02', r['logic'], b['argstr'], b['rules'], b['kind'])
            if 'inexact-rule' not in key and b['identity'] and b['kind'] == 'unsat-branch':
                key = f'C02|{r["logic"]}|identity|{b["kind"]}'
            if 'inexact-rule' not in key and b['kind'] == 'model':
                what = re.sub(r'\(designated=.*', '', re.sub(r'node .*? \(', 'node (', b['why']))[:60]
                key = f'C02|{r["logic"]}|{b["argstr"]}|model'
            if b['kind'] == 'known-table:NB':
                key = f'C02|{r["logic"]}|known-table:NB'
            rep.violation(key, f'{r["logic"]} {b["argstr"]} seed={b["seed"]} {b["cfg"]}: {b["why"]}',
                          dict(logic=r['logic'], argstr=b['argstr'], seed=b['seed'], cfg=b['cfg'],
                               kind=b['kind']))
    rep.coverage = dict(
        states=runs, transitions=branches, traces_validated_against_impl=branches, samples=samples,
        runs=runs, invalid_runs=inv, open_branches_checked=branches, branch_sat_queries=satq,
        branches_beyond_bound=skipped,
        bounds=dict(branch_worlds='<= 4', branch_constants='<= 4',
                    arguments='35 family + 50 propositional + 14 fixed specials per logic' if ctx.quick
                    else 'all family + 300 propositional + 40 random + 15 fixed + boundary family per logic',
                    seeds=2 if ctx.quick else 4, options='default, group optimisation off, rank optimisation off',
                    max_steps=600),
        solver=stats.asdict(),
        functions_executed=['Tableau.build/finish/_gen_models', 'BaseModel.read_branch/_read_node/finish',
                            'Model.value_of', 'Model.is_countermodel_to'],
        file_hashes=file_hashes(FILES), exhaustive=not rep.inconclusive,
        rule='one satisfiability query per open limit-free branch of an invalid run')
    rep.assumptions = ['branch satisfiability is judged in the specification semantics (FDE family: lattice), '
                       'the model check with the library\'s own evaluator, as the property states',
                       'tie-break orders are sampled by seeds']
    return rep


def replay(data):
    from pytableaux.lang import Argument
    from pytableaux.logics import registry
    registry.import_all()
    name = data['logic']
    arg = Argument(data['argstr'])
    try:
        tab = prover.build(name, arg, data.get('seed', 0), is_build_models=True, max_steps=600,
                           **(data.get('cfg') or {}))
    except Exception as e:  # noqa: BLE001
        return data['kind'] == 'raise', f'build raised {type(e).__name__}: {e}'
    if prover.outcome(tab) != 'invalid':
        return False, f'{name} {data["argstr"]}: outcome {prover.outcome(tab)}'
    S = LogicSem(name)
    stats = Stats()
    for b in prover.free_open_branches(tab):
        if data['kind'] == 'unsat-branch':
            st, interp = semrun.branch_satisfiable(S, b, stats)
            if st == 'unsat':
                # brute-force confirmation is not feasible in general; the solver verdict is re-derived
                return True, f'{name} {data["argstr"]}: open branch unsatisfiable in the specification semantics'
        else:
            problems = semrun.library_model_check(tab, b)
            if problems:
                return True, f'{name} {data["argstr"]}: {problems[0]}'
    return False, 'every open branch is satisfiable and its model satisfies all nodes'
