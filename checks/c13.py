"""C13 -- parsers accept only closed well-formed sentences and fail only with
ParseError.

pysymex runs the real parser of each notation on a symbolic input string of
every length <= N over a stated alphabet (all symbol classes, digits,
whitespace, a foreign character), together with the reference parser of
spec/refparse.py (product exploration, checks/parsex.py).  Characters are
fixed lazily, so a path that rejects after reading k characters covers every
continuation.  Per path:

  * the real parser returned a sentence or raised ParseError -- anything else
    is a violation (totality);
  * real and reference parser accept / reject alike;
  * a returned sentence is closed, non-vacuous, has no re-bound variable and
    applies every predicate at its arity (structural walk of the ident);
  * the complete real entry point on the path's concrete witness string gives
    the same result (this validates the harness' mirror of the standard
    parser's retry wrapper), and so does a parser that parsed other strings
    before and holds the same declarations, and a parser whose store reached
    the declarations by in-place redeclaration (history independence).
"""
from __future__ import annotations

import multiprocessing as mp

from checks import parsex
from engine import lexsym
from engine.main import Report, file_hashes

FILES = ['pytableaux/lang/parsing.py', 'pytableaux/lang/collect.py', 'pytableaux/errors.py',
         'pytableaux/lang/_symdata.py']

STORES = {
    'empty': {},
    'F1,G2': {(0, 0): 1, (1, 0): 2},
    'F3': {(0, 0): 3},
}


def unit(arg):
    notation, n, alpha_name, store_name, head, budget = arg
    lexsym.install_hash_abstraction()
    alpha = parsex.ALPHABETS[(notation, alpha_name)]
    store0 = STORES[store_name]
    ex, paths = parsex.explore(notation, n, alpha, store0, head=head, budget=budget)
    lexsym.remove_hash_abstraction()
    bad = []
    counts = dict(sentence=0, reject=0)
    validated = 0
    earlier = ['Fm' if notation == 'polish' else 'Fa', 'Gmn' if notation == 'polish' else 'Gab',
               'SxFx' if notation == 'polish' else 'XxFx', 'KaNb' if notation == 'polish' else 'A & ~B',
               'Sx', '((', 'F']
    seen_text = set()
    for p in paths:
        if p.kind != 'ok':
            e = p.value
            s = p.notes.get('input')
            text = s.witness(alpha[0]) if s is not None else ''
            kind = getattr(e, 'kind', 'crash')
            bad.append(dict(kind=kind, error=f'{type(e).__name__}: {e}', text=text,
                            mask=s.read_mask() if s is not None else ''))
            continue
        outcome, ident, text, mask = p.value
        counts[outcome] += 1
        if text in seen_text:
            continue
        seen_text.add(text)
        # concrete validation through the complete real entry point
        got = parsex.concrete_outcome(notation, text, store0)
        validated += 1
        want = ('sentence', ident) if outcome == 'sentence' else ('reject',)
        if got[0] != want[0] or (outcome == 'sentence' and got[1] != ident):
            bad.append(dict(kind='validation', text=text, mask=mask,
                            error=f'path says {outcome} {ident}, real entry point says {got}'))
            continue
        hist = parsex.history_outcome(notation, text, store0, earlier)
        if hist != got:
            bad.append(dict(kind='history', text=text, mask=mask,
                            error=f'fresh parser: {got}; after earlier parses: {hist}'))
            continue
        red = parsex.redeclared_outcome(notation, text, store0)
        if red != got:
            bad.append(dict(kind='history', text=text, mask=mask,
                            error=f'fresh parser: {got}; store redeclared in place: {red}'))
    st = ex.stats()
    samples = []
    for p in paths[:1] + paths[len(paths) // 2:len(paths) // 2 + 1]:
        if p.kind == 'ok':
            samples.append(dict(notation=notation, length=n, declarations=store_name,
                                witness=p.value[2], characters_read=p.value[3], outcome=p.value[0]))
    return dict(notation=notation, n=n, alpha=alpha_name, store=store_name, head=head,
                stats=st, bad=bad[:30], nbad=len(bad), counts=counts, validated=validated,
                samples=samples)


def plan(ctx):
    units = []
    budget = 600 if ctx.quick else 3000
    for notation in ('polish', 'standard'):
        N = (5 if notation == 'polish' else 4) if ctx.quick else (6 if notation == 'polish' else 5)
        alpha = parsex.ALPHABETS[(notation, 'reduced')]
        for store in STORES:
            for n in range(0, N + 1):
                if n == 6 and store != 'empty':
                    continue    # thorough: the longest polish inputs on the empty store only
                if n >= 5:
                    # partition over worker processes by the first two characters
                    for ch in alpha:
                        for ch2 in alpha:
                            units.append((notation, n, 'reduced', store, (ch, ch2), budget))
                elif n >= 3:
                    for ch in alpha:
                        units.append((notation, n, 'reduced', store, (ch,), budget))
                else:
                    units.append((notation, n, 'reduced', store, (), budget))
        # deep inputs over a tiny alphabet
        tiny = parsex.ALPHABETS[(notation, 'tiny')]
        deep = (9 if notation == 'polish' else 7) if ctx.quick else (10 if notation == 'polish' else 8)
        for n in range(N + 1, deep + 1):
            k = 1 if n <= 7 else (2 if n <= 9 and notation == 'polish' else 3)
            import itertools as _it
            for head in _it.product(tiny, repeat=k):
                units.append((notation, n, 'tiny', 'empty', tuple(head), budget))
        if not ctx.quick:
            fa = parsex.ALPHABETS[(notation, 'full')]
            for ch in fa:
                for ch2 in fa:
                    units.append((notation, 4, 'full', 'empty', (ch, ch2), budget))
    return units


def run(ctx):
    rep = Report('C13', 'model_checking')
    units = plan(ctx)
    with mp.Pool(ctx.jobs) as pool:
        results = pool.map(unit, units, chunksize=1)
    paths = trans = validated = 0
    accepted = rejected = 0
    samples = []
    for r in results:
        st = r['stats']
        paths += st['paths']
        trans += st['picks'] + st['decisions']
        validated += r['validated']
        accepted += r['counts']['sentence']
        rejected += r['counts']['reject']
        if len(samples) < 6:
            samples += r['samples'][:1]
        if not st['exhausted']:
            rep.inconclusive.append(
                f'{r["notation"]} n={r["n"]} {r["alpha"]} {r["store"]} head={r["head"]}: not exhausted')
        seen = set()
        for b in r['bad']:
            key = f'C13|{r["notation"]}|{b["kind"]}|{b["text"]!r}|{r["store"]}'
            if key in seen:
                continue
            seen.add(key)
            if b['kind'] in ('denotation',):
                continue    # reported by C12
            rep.violation(key, f'{r["notation"]} input {b["text"]!r} (read {b["mask"]}, declarations '
                               f'{r["store"]}): {b["error"]}',
                          dict(notation=r['notation'], text=b['text'], store=r['store'], kind=b['kind'],
                               error=b['error']))
    if accepted == 0 or rejected == 0:
        rep.harness_error('vacuous exploration: no accepted or no rejected input')
    rep.coverage = dict(
        states=paths, transitions=trans, traces_validated_against_impl=validated, samples=samples,
        accepted_paths=accepted, rejected_paths=rejected,
        bounds=dict(polish_length=5 if ctx.quick else 6, standard_length=4 if ctx.quick else 5,
                    alphabet={k[0]: ''.join(v) for k, v in parsex.ALPHABETS.items() if k[1] == 'reduced'},
                    thorough_full_alphabet='length 4' if not ctx.quick else None,
                    deep_tiny_alphabet=dict(polish='KNVxFGm up to length %d' % (9 if ctx.quick else 10),
                                            standard='&LxFGa up to length %d' % (7 if ctx.quick else 9)),
                    declarations=list(STORES)),
        functions_executed=['DefaultParser.__call__/_read*', 'PolishParser._read_operated',
                            'StandardParser._read_operated/_read_infix_predicated/_read_from_paren_open',
                            'ParseContext.*', 'Predicates.get/add', 'Parser.__call__ (concrete validation)'],
        stubs=['StandardParser.__call__ retry wrapper mirrored by the harness (it formats the input into '
               'a new str); validated against the real wrapper on every path\'s witness',
               'lexical hash abstraction'],
        file_hashes=file_hashes(FILES), exhaustive=not rep.inconclusive,
        rule='paths = classes of input strings distinguished by what the parsers read')
    rep.assumptions = ['inputs longer than the bound, subscripts with > 4300 digits (int() raises ValueError) '
                       'and nesting beyond the recursion limit (RecursionError) are outside the bound',
                       'reference grammar: spec/refparse.py']
    return rep


def replay(data):
    store0 = STORES[data['store']]
    notation, text = data['notation'], data['text']
    got = parsex.concrete_outcome(notation, text, store0)
    kind = data['kind']
    if kind in ('totality', 'crash'):
        return got[0] == 'crash', f'{notation} {text!r}: {got}'
    store = dict(store0)
    from spec import refparse
    try:
        ref = ('sentence', refparse.parse(notation, text, store))
    except refparse.Reject as e:
        ref = ('reject', str(e))
    if kind == 'agreement':
        return got[0] != ref[0], f'{notation} {text!r}: real {got}, reference {ref}'
    if kind == 'wellformed':
        if got[0] != 'sentence':
            return False, f'{notation} {text!r}: {got}'
        try:
            parsex.closed_wellformed(got[1], store)
        except parsex.Finding as e:
            return True, f'{notation} {text!r}: {e}'
        return False, 'well formed'
    if kind == 'history':
        earlier = ['Fm' if notation == 'polish' else 'Fa', 'Gmn' if notation == 'polish' else 'Gab',
                   'SxFx' if notation == 'polish' else 'XxFx', 'KaNb' if notation == 'polish' else 'A & ~B',
                   'Sx', '((', 'F']
        h = parsex.history_outcome(notation, text, store0, earlier)
        r = parsex.redeclared_outcome(notation, text, store0)
        return h != got or r != got, (f'{notation} {text!r}: fresh {got}, after earlier parses {h}, '
                                      f'store redeclared in place {r}')
    if kind == 'validation':
        return got[0] == 'crash', f'{notation} {text!r}: {got} (harness mirror disagreed: {data["error"]})'
    return False, f'unknown kind {kind}'
