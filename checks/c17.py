"""C17 -- limits and lifecycle: three-valued verdicts, bounded work, locked state.

Three symbolic inputs drive the real `Tableau` under pysymex:

* the step limit k, a z3 integer over all of Z (and None): the classes
  k <= 0, k = 1..n, k > n are the paths; on each: finished, premature <=>
  stopped by the limit, no verdict when premature, len(history) <= k for
  k > 0 (decided by z3 on the path condition), the history is a prefix of the
  unlimited one, and k > n or k <= 0 changes nothing;
* the clock: `tools.timing._nowms` is replaced by a stub that returns
  arbitrary non-decreasing z3 integers (its documented contract), the time
  limit T is a z3 integer: whenever `elapsed > T > 0` is feasible at a check
  the path raises ProofTimeoutError and leaves the tableau finished, premature,
  verdict-less and tree-less; otherwise the run equals the unlimited one;
* the API call sequence: up to 3 (quick) / 4 calls picked from {step, finish,
  build, set argument, set logic, add rule, clear rules} after start: a
  finished tableau does not change, setters raise IllegalStateError, a tableau
  without an argument never reports a verdict.
"""
from __future__ import annotations

import multiprocessing as mp
import re

import z3

from engine.main import Report, file_hashes
from engine.pysymex import (Explorer, ReplayDriver, SymDriver, SymInt, model_values)
from engine.tabutil import reset_order
from families import args as fam

FILES = ['pytableaux/proof/tableaux.py', 'pytableaux/proof/__init__.py',
         'pytableaux/tools/timing.py']


class Broken(Exception):
    pass


def signature(tab):
    out = []
    for e in tab.history:
        t = e.target
        out.append((e.rule.name, str(t.get('sentence')), str(t.get('world')),
                    str(t.get('node', {}).get('sentence') if t.get('node') else None)))
    return out


def verdict(tab):
    return (tab.finished, tab.completed, tab.premature, tab.valid, tab.invalid)


def unlimited(logic, argstr, seed, cap=None):
    '''The reference run without any limit, driven by the step loop that build() is.  With `cap`
    the loop is abandoned after cap + 1 steps (the proof is then outside the stated bound on the
    proof length) and None is returned -- no option of the tableau is used for that.'''
    from pytableaux.lang import Argument
    from pytableaux.proof import Tableau
    reset_order(seed)
    tab = Tableau(logic, Argument(argstr))
    while tab.step() is not None:
        if cap is not None and len(tab.history) > cap:
            return None
    return signature(tab), verdict(tab), len(tab), len(tab.open)


# --- step limit ---------------------------------------------------------------

def limit_fn(drv, logic, argstr, seed, base):
    from pytableaux.lang import Argument
    from pytableaux.proof import Tableau
    sig0, ver0, nb0, no0 = base
    n = len(sig0)
    reset_order(seed)
    k = drv.int('k')
    tab = Tableau(logic, Argument(argstr), max_steps=k)
    tab.build()
    sig = signature(tab)
    if not tab.finished:
        raise Broken('build() returned an unfinished tableau')
    if tab.premature:
        if tab.valid is not None or tab.invalid is not None:
            raise Broken('premature tableau reports a verdict')
        if tab.completed:
            raise Broken('premature and completed at once')
    else:
        if not tab.completed:
            raise Broken('finished tableau neither premature nor completed')
        if (tab.valid, tab.invalid) not in ((True, False), (False, True)):
            raise Broken('completed tableau with an argument has no two-valued verdict')
    pos = bool(k > 0)
    if pos:
        if not bool(k >= len(sig)):
            raise Broken('recorded steps exceed the positive step limit')
    if sig != sig0[:len(sig)]:
        raise Broken('history under a step limit is not a prefix of the unlimited history')
    if (not pos) or bool(k > n):
        if sig != sig0 or verdict(tab) != ver0 or len(tab) != nb0:
            raise Broken('a non-positive limit or a limit above the natural length changed the result')
    elif len(sig) < n and not tab.premature:
        raise Broken('stopped before the natural length without being premature')
    # stepping / finishing a finished tableau changes nothing
    before = (sig, verdict(tab), len(tab), len(tab.open), tab.stats.get('steps'))
    if tab.step() is not None:
        raise Broken('step() on a finished tableau returned an entry')
    tab.finish()
    tab.build()
    after = (signature(tab), verdict(tab), len(tab), len(tab.open), tab.stats.get('steps'))
    if before != after:
        raise Broken('stepping or finishing a finished tableau changed it')
    return (len(sig), tab.premature)


# --- time limit ---------------------------------------------------------------

class ClockBound(Exception):
    'the run reads the clock more often than the stub provides instants: outside the stated bound'


class SymClock:
    """Stub for tools.timing._nowms: arbitrary non-decreasing instants.  The
    instants t0 <= t1 <= ... are declared as preconditions of the explorer."""

    def __init__(self, drv, nmax):
        self.drv = drv
        self.n = 0
        self.nmax = nmax

    def __call__(self):
        if self.n >= self.nmax:
            raise ClockBound(f'more than {self.nmax} clock readings')
        v = self.drv.int(f't{self.n}')
        self.n += 1
        return v


def time_fn(drv, logic, argstr, seed, base, nclock, models=False):
    from pytableaux.errors import ProofTimeoutError
    from pytableaux.lang import Argument
    from pytableaux.proof import Tableau
    from pytableaux.tools import timing
    sig0, ver0, nb0, no0 = base
    reset_order(seed)
    clock = SymClock(drv, nclock)
    old = timing._nowms
    timing._nowms = clock
    try:
        T = drv.int('T')
        if isinstance(T, SymInt):
            # int(T) is only used to format the timeout message
            T.opaque = -424242
        tab = Tableau(logic, Argument(argstr), build_timeout=T, is_build_models=models)
        raised = False
        in_models = False
        try:
            tab.build()
        except ProofTimeoutError:
            raised = True
        if raised:
            if not bool(T > 0):
                raise Broken('timeout raised without a positive time limit')
            if not tab.finished:
                raise Broken('tableau not finished after ProofTimeoutError')
            if models and not tab.premature:
                # the proof itself was complete: the limit was crossed while the
                # countermodels were being built (finish() -> _gen_models)
                in_models = True
                if signature(tab) != sig0 or verdict(tab) != ver0 or not tab.invalid:
                    raise Broken('timeout after the last step, but the proof differs from the unlimited run')
            elif not tab.premature or tab.valid is not None or tab.invalid is not None:
                raise Broken('timed-out tableau is not premature or reports a verdict')
            if tab.tree is not None:
                raise Broken('tree built after a timeout')
            if not bool(tab.timers.build.elapsed_ms() > T):
                raise Broken('timeout raised although elapsed <= limit')
            before = (signature(tab), verdict(tab))
            if tab.step() is not None:
                raise Broken('step() after timeout returned an entry')
            tab.build()
            tab.finish()
            if (signature(tab), verdict(tab)) != before:
                raise Broken('a timed-out tableau changed on further calls')
        else:
            if signature(tab) != sig0 or verdict(tab) != ver0:
                raise Broken('run without timeout differs from the unlimited run')
            if bool(T > 0) and bool(tab.timers.build.elapsed_ms() > T):
                # the limit was exceeded only after the last check: allowed
                pass
        drv.note('clock_reads', clock.n)
        return ('timeout-models' if in_models else 'timeout' if raised else 'done', len(tab.history))
    finally:
        timing._nowms = old


# --- lifecycle ------------------------------------------------------------------

CALLS = ('step', 'finish', 'build', 'set_argument', 'set_logic', 'add_rule', 'clear_rules',
         'build_trunk')


def life_fn(drv, logic, argstr, seed, ncalls, with_argument):
    from pytableaux.errors import IllegalStateError
    from pytableaux.lang import Argument
    from pytableaux.proof import Tableau
    from pytableaux.logics import registry
    reset_order(seed)
    arg = Argument(argstr)
    tab = Tableau(logic, arg if with_argument else None)
    log = []
    drv.note('log', log)
    n = 1 + drv.pick(ncalls, 'ncalls')
    for i in range(n):
        call = CALLS[drv.pick(len(CALLS), f'call{i}')]
        log.append(call)
        started = bool(tab.flag & tab.flag.STARTED) or bool(tab.flag & tab.flag.TRUNK_BUILT)
        was_finished = tab.finished
        snap = (signature(tab), verdict(tab), len(tab), len(tab.open),
                [len(b) for b in tab])
        try:
            if call == 'step':
                tab.step()
            elif call == 'finish':
                tab.finish()
            elif call == 'build':
                tab.build()
            elif call == 'set_argument':
                tab.argument = arg
                if started:
                    raise Broken('argument setter accepted after start')
            elif call == 'set_logic':
                tab.logic = logic
                if started:
                    raise Broken('logic setter accepted after start')
            elif call == 'add_rule':
                import types

                from pytableaux.proof.rules import NoopRule
                tab.rules.append(types.new_class(f'ExtraNoop{i}', (NoopRule,)))
                if len(tab):
                    raise Broken('rule added after the first branch')
            elif call == 'clear_rules':
                tab.rules.clear()
                if len(tab):
                    raise Broken('rules cleared after the first branch')
            elif call == 'build_trunk':
                tab.build_trunk()
                if started or not with_argument:
                    raise Broken('build_trunk accepted twice / without argument')
        except IllegalStateError:
            if call in ('step', 'finish', 'build'):
                raise Broken(f'{call}() raised IllegalStateError')
            after = (signature(tab), verdict(tab), len(tab), len(tab.open), [len(b) for b in tab])
            if after != snap:
                raise Broken(f'rejected {call} changed the tableau')
        if was_finished:
            after = (signature(tab), verdict(tab), len(tab), len(tab.open), [len(b) for b in tab])
            if after != snap:
                raise Broken(f'{call} changed a finished tableau')
        if tab.argument is None:
            if tab.valid is not None or tab.invalid is not None:
                raise Broken('tableau without an argument reports a verdict')
        if tab.premature and (tab.valid is not None or tab.invalid is not None):
            raise Broken('premature tableau reports a verdict')
    return tuple(log)


# --- units ------------------------------------------------------------------------

def explore(fnc, pre, budget, max_paths=3000):
    drv = SymDriver()
    ex = Explorer(pre, max_paths=max_paths, max_seconds=budget)
    paths = ex.run(lambda: fnc(drv))
    return ex, paths


def unit(arg):
    kind, logic, argstrs, seed, budget, extra = arg
    from pytableaux.logics import registry
    registry.import_all()
    out = dict(kind=kind, logic=logic, paths=0, decisions=0, queries=0, solver_time=0.0, bad=[],
               inexhausted=[], samples=[], units=0)
    for argstr in argstrs:
        try:
            if kind == 'limit':
                base = unlimited(logic, argstr, seed, cap=(extra or 40))
                if base is None or len(base[0]) > (extra or 40):
                    # outside the stated bound on proof length (cost grows quadratically)
                    out['skipped_long'] = out.get('skipped_long', 0) + 1
                    continue
                ex, paths = explore(lambda d: limit_fn(d, logic, argstr, seed, base), (), budget)
            elif kind == 'time':
                base = unlimited(logic, argstr, seed, cap=60)
                if base is None or len(base[0]) > 60:
                    out['skipped_long'] = out.get('skipped_long', 0) + 1
                    continue
                nclock, models = extra if isinstance(extra, (list, tuple)) else (extra, False)
                pre = [z3.Int('t0') >= 0] + [z3.Int(f't{i}') <= z3.Int(f't{i + 1}') for i in range(nclock)]
                ex, paths = explore(lambda d: time_fn(d, logic, argstr, seed, base, nclock, models), pre, budget)
                if models and base[1][4] and ex.exhausted and not any(
                        p.kind == 'ok' and p.value[0] == 'timeout-models' for p in paths):
                    # reachability: the time limit must also bound the model building of finish()
                    out['bad'].append(dict(
                        argstr=argstr, witness={}, picks=[], extra=[nclock, True, 'unbounded-models'],
                        error='no clock schedule raises the timeout while the countermodels are built: '
                              'finish() is not bounded by build_timeout'))
            else:
                ncalls, with_arg = extra
                ex, paths = explore(lambda d: life_fn(d, logic, argstr, seed, ncalls, with_arg), (),
                                    budget, max_paths=100000)
        except Exception as e:  # noqa: BLE001
            out['bad'].append(dict(argstr=argstr, error=f'harness: {type(e).__name__}: {e}', witness={},
                                   picks=[], extra=extra))
            continue
        if kind == 'time' and any(p.kind != 'ok' and isinstance(p.value, ClockBound) for p in paths):
            # outside the bound on clock readings (stated in the evidence): nothing is claimed
            out['skipped_clock'] = out.get('skipped_clock', 0) + 1
            continue
        st = ex.stats()
        out['units'] += 1
        out['paths'] += st['paths']
        out['decisions'] += st['decisions'] + st['picks']
        out['queries'] += st['queries']
        out['solver_time'] += st['solver_time_s']
        if not st['exhausted']:
            out['inexhausted'].append(argstr)
        for p in paths:
            if p.kind != 'ok':
                wit = model_values(ex.witness(p))
                wit = {k: v for k, v in wit.items() if k in ('k', 'T') or k.startswith('t')}
                out['bad'].append(dict(argstr=argstr, error=f'{type(p.value).__name__}: {p.value}',
                                       witness=wit, picks=list(p.picks), extra=extra,
                                       log=list(p.notes.get('log', []))))
        if paths and len(out['samples']) < 2:
            out['samples'].append(dict(
                kind=kind, logic=logic, argument=argstr,
                classes=[dict(pc=[str(c) for c in p.pc[-4:]], outcome=str(p.value)[:60],
                              log=list(p.notes.get('log', []))) for p in paths[:4]]))
    return out


def run(ctx):
    from pytableaux.logics import registry
    registry.import_all()
    rep = Report('C17', 'model_checking')
    names = sorted(registry(n).Meta.name for n in registry.all())
    pool = fam.examples() + fam.M + fam.Q + fam.MQ
    small = ['b:a', 'Aab:a', 'b:Cab:a', 'Ma:LMa', 'SxFx:VxFx', 'b:Aab:Na', 'AaNa', 'KMaMb:Mc']
    units = []
    budget = 60 if ctx.quick else 300
    for name in names:
        sel = fam.select(pool, 10 if ctx.quick else 30, ctx.seed + 17, name) + small[:3]
        sel = list(dict.fromkeys(sel))
        if ctx.quick:
            units.append(('limit', name, sel, ctx.seed, budget * 2, 40))
        else:
            # chunks of <= 6 arguments (one slow logic must not become the tail of the whole run)
            for c in range(0, len(sel), 6):
                units.append(('limit', name, sel[c:c + 6], ctx.seed, 240, 60))
    time_logics = ['CPL', 'FDE', 'K3', 'K', 'S4', 'S5FDE', 'D', 'KK3WQ']
    if not ctx.quick:
        time_logics = list(dict.fromkeys(time_logics + names[::3]))
    for name in time_logics:
        # one unit per argument (each path is a complete run and there is one path per clock reading:
        # quadratic in the proof length); proofs longer than 60 steps are outside the time exploration
        if ctx.quick:
            units.append(('time', name, small[:4], ctx.seed, budget * 2, 2500))
        else:
            for a_ in small:
                units.append(('time', name, [a_], ctx.seed, budget, 2500))
        # the same with countermodels requested (invalid arguments with one / two open branches)
        units.append(('time', name, ['b:a', 'b:Aab'], ctx.seed, budget * 2, (2500, True)))
    life_logics = ['CPL', 'FDE', 'K', 'S5', 'D', 'GO', 'CFOL', 'KLP']
    if not ctx.quick:
        life_logics = list(dict.fromkeys(life_logics + names[1::4]))
    for name in life_logics:
        for with_arg in (True, False):
            units.append(('life', name, ['b:Aab:Na', 'Ma:LMa'] if with_arg else ['a'], ctx.seed,
                          budget * 2, (3 if ctx.quick else 4, with_arg)))
    with mp.Pool(ctx.jobs) as pool_:
        results = pool_.map(unit, units, chunksize=1)
    paths = trans = queries = nunits = skipped_long = skipped_clock = 0
    st_time = 0.0
    samples = []
    for r in results:
        paths += r['paths']
        trans += r['decisions']
        queries += r['queries']
        st_time += r['solver_time']
        nunits += r['units']
        skipped_long += r.get('skipped_long', 0)
        skipped_clock += r.get('skipped_clock', 0)
        samples += r['samples'][:1]
        for a in r['inexhausted']:
            rep.inconclusive.append(f'{r["kind"]} {r["logic"]} {a}: not exhausted')
        for b in r['bad']:
            what = re.sub(r'\d+', '#', b['error'])[:110]
            key = f'C17|{r["kind"]}|{what}'
            rep.violation(key, f'{r["kind"]} {r["logic"]} {b["argstr"]}: {b["error"]} '
                               f'(witness {b["witness"]}, calls {b.get("log")})',
                          dict(kind=r['kind'], logic=r['logic'], argstr=b['argstr'], seed=ctx.seed,
                               witness=b['witness'], picks=b['picks'], extra=b['extra'],
                               error=b['error']))
    kinds = {}
    for s in samples:
        kinds.setdefault(s['kind'], s)
    rep.coverage = dict(
        states=paths, transitions=trans, traces_validated_against_impl=0,
        samples=list(kinds.values())[:3], units=nunits,
        outside_bounds=dict(arguments_with_longer_proofs=skipped_long,
                            arguments_with_more_than_2500_clock_readings=skipped_clock),
        bounds=dict(step_limit='k over all integers, one class per prefix; 13 arguments per logic (quick), '
                               'proofs of natural length <= 40 (quick) / 60 steps; thorough: 33 arguments per logic',
                    time_limit='T over all integers; clock = arbitrary non-decreasing instants; proofs <= 60 steps; '
                               f'{len(time_logics)} logics x small arguments, without and with countermodels '
                               '(with: some schedule must raise the timeout inside finish())',
                    lifecycle=f'up to {3 if ctx.quick else 4} calls from {list(CALLS)} on '
                              f'{len(life_logics)} logics, with and without an argument'),
        stubs=['tools.timing._nowms -> arbitrary non-decreasing z3 integers (time exploration only)',
               'int(T) inside the timeout error message returns a sentinel (text only)'],
        solver=dict(queries=queries, solver_time_s=round(st_time, 2)),
        functions_executed=['Tableau.step/finish/build/_check_timeout/_is_max_steps_exceeded',
                            'Tableau.argument/logic setters, build_trunk', 'RulesRoot/RuleGroup locking',
                            'tools.timing.StopWatch'],
        file_hashes=file_hashes(FILES), exhaustive=not rep.inconclusive,
        rule='paths = classes of k / of the clock readings against T / call sequences')
    rep.assumptions = ['the unlimited run with the same node-order seed is the reference for "changes nothing"']
    return rep


def replay(data):
    from pytableaux.logics import registry
    registry.import_all()
    kind = data['kind']
    logic, argstr, seed = data['logic'], data['argstr'], data.get('seed', 0)
    drv = ReplayDriver(data.get('picks', []), data.get('witness', {}))
    try:
        if kind == 'limit':
            limit_fn(drv, logic, argstr, seed, unlimited(logic, argstr, seed))
        elif kind == 'time':
            # missing clock readings default to the last given one (non-decreasing)
            wit = dict(data.get('witness', {}))
            last = 0
            extra = data['extra'] if isinstance(data['extra'], (list, tuple)) else [data['extra'], False]
            nclock, models = int(extra[0]), bool(extra[1])
            base = unlimited(logic, argstr, seed)
            if len(extra) > 2:
                # concrete confirmation: the clock jumps past the limit after its c-th reading, every c
                for c in range(0, 400):
                    w = {f't{i}': (0 if i < c else 10 ** 9) for i in range(nclock + 1)}
                    w['T'] = 1
                    try:
                        r = time_fn(ReplayDriver([], w), logic, argstr, seed, base, nclock, True)
                    except ClockBound:
                        break
                    if r[0] == 'timeout-models':
                        return False, f'time {logic} {argstr}: timeout during model building at reading {c}'
                    if r[0] == 'done':
                        break
                return True, (f'time {logic} {argstr}: no jump of the clock makes finish() raise the timeout '
                              f'while the countermodels are built')
            for i in range(nclock + 1):
                last = wit.setdefault(f't{i}', max(last, wit.get(f't{i}', last)))
                last = wit[f't{i}']
            drv = ReplayDriver([], wit)
            time_fn(drv, logic, argstr, seed, base, nclock, models)
        else:
            ncalls, with_arg = data['extra']
            life_fn(drv, logic, argstr, seed, ncalls, with_arg)
    except Broken as e:
        return True, f'{kind} {logic} {argstr}: {e} ({data.get("witness")})'
    except Exception as e:  # noqa: BLE001
        return True, f'{kind} {logic} {argstr}: {type(e).__name__}: {e}'
    return False, f'{kind} {logic} {argstr}: holds in replay'
