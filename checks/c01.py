"""C01 -- a 'valid' verdict is sound in every logic.

Soundness is decided compositionally and the composition is cross-checked on
real runs.

Lemmas (for arbitrary arguments; discharged by z3 on bounded models in other
checks, which this check depends on and names in its evidence):
  trunk    this check: for every logic, the real `System.build_trunk` on a
           schematic argument yields nodes whose conjunction is equivalent (z3)
           to "premises designated, conclusion not";
  rules    C04 (every rule application preserves satisfiability downward);
  closure  C05 (a branch closes only if unsatisfiable);
  witness  C06 (witnesses are fresh).
A closed tableau is then a refutation, by induction over the step history,
whatever the options and tie-break order.

Glue (real runs): for every argument shape of the families, every logic, the
real prover runs under pysymex with the two option flags symbolic (4 paths);
on every path that ends `valid`, z3 searches a countermodel in the
specification semantics with |W| <= 3, |D| <= 3 -- `sat` is a violation,
confirmed by the plain-Python evaluator before it is reported.
"""
from __future__ import annotations

import multiprocessing as mp

import z3

from engine.main import Report, file_hashes
from engine.pysymex import Explorer, SymBool
from engine.semz3 import Interp, LogicSem, Stats
from families import args as fam
from families import prover, semrun

FILES = ['pytableaux/proof/tableaux.py', 'pytableaux/proof/rules.py', 'pytableaux/proof/helpers.py',
         'pytableaux/proof/common.py', 'pytableaux/logics/fde.py', 'pytableaux/logics/cpl.py']


def trunk_lemma(name, stats):
    """real build_trunk on schematic arguments == 'premises designated and
    conclusion not' (z3 equivalence over all interpretations)"""
    from pytableaux.lang import Argument
    from pytableaux.proof import Tableau
    S = LogicSem(name)
    bad = []
    n = 0
    for argstr in ('a', 'b:a', 'c:a:b', 'Kab:Na:Cab', 'a:a'):
        arg = Argument(argstr)
        tab = Tableau(name, arg)
        if len(tab) != 1:
            bad.append(f'{argstr}: trunk has {len(tab)} branches')
            continue
        I = Interp(S, 'spec', W=2 if S.modal else 1, K=1)
        lhs = I.sat_nodes(list(tab[0]))
        rhs = z3.And(*[I.des(p, 0) for p in arg.premises], z3.Not(I.des(arg.conclusion, 0)))
        s = z3.Solver()
        s.add(*I.constraints())
        s.add(lhs != rhs)
        n += 1
        if stats.check(s) != z3.unsat:
            bad.append(f'{argstr}: trunk nodes are not equivalent to "premises designated, conclusion not"')
    return n, bad


def unit(arg_):
    name, shapes, seed = arg_
    from pytableaux.lang import Argument
    from pytableaux.logics import registry
    registry.import_all()
    S = LogicSem(name)
    stats = Stats()
    out = dict(logic=name, shapes=0, paths=0, valid_paths=0, queries=0, bad=[], unknown=0, samples=[],
               raised=[])
    for argstr in shapes:
        arg = Argument(argstr)
        out['shapes'] += 1

        def fn():
            g = SymBool('is_group_optim')
            r = SymBool('is_rank_optim')
            tab = prover.build(name, arg, seed, is_group_optim=g, is_rank_optim=r, max_steps=600)
            return dict(cls=prover.outcome(tab), rules=prover.rules_applied(tab), steps=len(tab.history))
        ex = Explorer([], max_paths=16, max_seconds=300)
        paths = ex.run(fn)
        out['paths'] += len(paths)
        valid_rules = None
        for p in paths:
            if p.kind != 'ok':
                out['raised'].append((argstr, f'{type(p.value).__name__}: {p.value}'))
                continue
            if p.value['cls'] == 'valid':
                out['valid_paths'] += 1
                valid_rules = p.value['rules']
        if valid_rules is None:
            continue
        st, cm = semrun.countermodel(S, arg, stats)
        out['queries'] += 1
        if st == 'unknown':
            out['unknown'] += 1
        elif st == 'sat':
            confirmed = semrun.check_countermodel(name, arg, cm)
            out['bad'].append(dict(argstr=argstr, rules=valid_rules, interp=cm, confirmed=confirmed))
        if len(out['samples']) < 2:
            out['samples'].append(dict(logic=name, argument=argstr, verdict='valid',
                                       countermodel_query=st, option_paths=len(paths)))
    out['stats'] = stats.asdict()
    return out


def lemma_unit(name):
    from pytableaux.logics import registry
    registry.import_all()
    stats = Stats()
    n, bad = trunk_lemma(name, stats)
    return dict(logic=name, n=n, bad=bad, stats=stats.asdict())


# fixed shapes: the counter of fresh constants wrapping to the first subscript next to the last
# unsubscripted constant; a one-node alternative that is already on the branch and ticked
SPECIAL = ['Hs:SxKFxGs:SxNFx', 'Fs:SxGx:SxNGx:Gs', 'a:Kbc:AaKbc', 'c:LMa:MKLdNd:Me']


def plan(ctx):
    from pytableaux.logics import registry
    registry.import_all()
    names = sorted(registry(n).Meta.name for n in registry.all())
    pool = fam.examples() + fam.M + fam.Q + fam.MQ
    p1, p2 = fam.prop(1), fam.prop(2)
    units = []
    for name in names:
        if ctx.quick:
            sel = fam.select(pool, 40, ctx.seed + 1, name) + fam.select(p1, 40, ctx.seed, name) \
                + fam.select(p2, 40, ctx.seed, name) + fam.select(fam.side_premise(), 20, ctx.seed, name) \
                + SPECIAL
        else:
            sel = pool + fam.select(p1, 150, ctx.seed, name) + fam.select(p2, 400, ctx.seed, name) \
                + fam.random_args(ctx.seed, 40) + fam.side_premise() + SPECIAL
        sel = list(dict.fromkeys(sel))
        n = 3 if ctx.quick else 8
        for k in range(n):
            units.append((name, sel[k::n], ctx.seed))
    return names, units


def run(ctx):
    rep = Report('C01', 'model_checking')
    names, units = plan(ctx)
    with mp.Pool(ctx.jobs) as pool:
        ar = pool.map_async(lemma_unit, names, chunksize=4)
        results = pool.map(unit, units, chunksize=1)
        lres = ar.get()
    stats = Stats()
    shapes = paths = valid_paths = queries = 0
    samples = []
    lem = 0
    for r in lres:
        stats.merge(r['stats'])
        lem += r['n']
        for b in r['bad']:
            rep.violation(f'C01|{r["logic"]}|trunk|{b.split(":")[0]}', f'{r["logic"]}: {b}',
                          dict(kind='trunk', logic=r['logic']))
    for r in results:
        stats.merge(r['stats'])
        shapes += r['shapes']
        paths += r['paths']
        valid_paths += r['valid_paths']
        queries += r['queries']
        if len(samples) < 5:
            samples += r['samples'][:1]
        if r['unknown']:
            rep.inconclusive.append(f'{r["logic"]}: {r["unknown"]} countermodel queries unknown/timeout')
        for b in r['bad']:
            if not b['confirmed']:
                rep.harness_error(f'{r["logic"]} {b["argstr"]}: solver countermodel not confirmed by the '
                                  'plain-Python evaluator')
                continue
            key = prover.attribute('C01', r['logic'], b['argstr'], b['rules'])
            rep.violation(key, f'{r["logic"]} reports {b["argstr"]} valid, but it has a countermodel: {b["interp"]}',
                          dict(kind='run', logic=r['logic'], argstr=b['argstr'], interp=b['interp'],
                               seed=ctx.seed))
    rep.coverage = dict(
        states=paths, transitions=queries + lem, traces_validated_against_impl=0, samples=samples,
        shapes_times_logics=shapes, valid_paths=valid_paths, countermodel_queries=queries,
        trunk_lemma_obligations=lem,
        lemmas_discharged_elsewhere=dict(rules='C04', closure='C05', freshness='C06'),
        bounds=dict(worlds=3, domain=3,
                    arguments='40 family + 80 propositional + 20 side-premise per logic by seed + 4 fixed' if ctx.quick
                    else 'all family + 550 propositional + 40 random + side-premise (144) + 4 fixed per logic',
                    options='both flags symbolic (4 paths)', order_seed=ctx.seed, max_steps=600),
        solver=stats.asdict(),
        functions_executed=['System.build_trunk', 'Tableau.build', 'all rules, closure rules'],
        file_hashes=file_hashes(FILES), exhaustive=not rep.inconclusive,
        rule='one countermodel query per (logic, shape) reported valid')
    rep.assumptions = ['oracle: spec semantics; countermodels with more than 3 worlds / elements are outside the bound',
                       'runs that applied a rule listed as a C04 known finding are attributed to it']
    return rep


def replay(data):
    from pytableaux.lang import Argument
    from pytableaux.logics import registry
    registry.import_all()
    if data['kind'] == 'trunk':
        r = lemma_unit(data['logic'])
        return bool(r['bad']), f'{data["logic"]}: {r["bad"]}'
    arg = Argument(data['argstr'])
    tab = prover.build(data['logic'], arg, data.get('seed', 0), max_steps=600)
    ok = semrun.check_countermodel(data['logic'], arg, data['interp'])
    return bool(tab.valid) and ok, (f'{data["logic"]} {data["argstr"]}: prover valid={tab.valid}; recorded '
                                    f'interpretation is a countermodel: {ok}')
