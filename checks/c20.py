"""C20 -- the published description of a model says what the model evaluates.

Rides on the symbolic models of C08: the real `Model.get_data()` is called
(twice) on models whose letters, predications and uninterpreted sentences
carry symbolic truth values and whose initial access pairs are symbolic
booleans, after the real `finish()`.  On every path the export is compared
with the real evaluator: worlds and access pairs listed == frames and R; each
letter / uninterpreted sentence is listed with the value `value_of` gives it
at that world (equality of the symbolic values decided by z3: a path on which
they can differ is a counterexample); a tuple is in the extension
(anti-extension) exactly when the predication evaluates to a value in {T,B}
({F,B}); lists are sorted by the lexical order and the two exports are equal.
Models read from open branches of real tableaux get the same comparison
concretely.
"""
from __future__ import annotations

import itertools
import multiprocessing as mp

import z3

from checks import c08
from engine.main import Report, file_hashes
from engine.pysymex import Explorer, SymBool, model_values
from engine.semz3 import Interp, LogicSem
from engine.symval import SymVal
from engine.tabutil import reset_order
from families import args as fam

FILES = ['pytableaux/models/__init__.py']


class Bad(Exception):
    pass


def same(x, y):
    'symbolic or concrete equality of two truth values'
    r = (x == y)
    return bool(r)


def check_export(m, logic, modal, many_valued):
    d1 = m.get_data()
    d2 = m.get_data()
    if _plain(d1) != _plain(d2):
        raise Bad('two exports of the same model differ')
    worlds = sorted(m.frames)
    if modal:
        if d1['Worlds']['values'] != worlds:
            raise Bad(f'exported worlds {d1["Worlds"]["values"]} != frames {worlds}')
        pairs = sorted((i, j) for i in m.R for j in m.R[i])
        if [tuple(p) for p in d1['Access']['values']] != pairs:
            raise Bad(f'exported access pairs {d1["Access"]["values"]} != R {pairs}')
        frames = {w: f['value'] for w, f in zip(worlds, d1['Frames']['values'])}
        if len(d1['Frames']['values']) != len(worlds):
            raise Bad('number of exported frames differs from the number of worlds')
    else:
        frames = {0: d1}
    for w, fd in frames.items():
        kw = {'world': w} if modal else {}
        fr = m.frames[w]
        for part, base in (('Atomics', fr.atomics), ('Opaques', fr.opaques)):
            rows = fd[part]['values']
            inputs = [r['input'] for r in rows]
            if inputs != sorted(base):
                raise Bad(f'{part} at world {w}: listed sentences are not exactly the sorted keys')
            for r in rows:
                v = m.value_of(r['input'], **kw)
                if not same(r['output'], v):
                    raise Bad(f'{part} at world {w}: exported value of {r["input"]} differs from value_of')
        rows = fd['Predicates']['values']
        preds = sorted(fr.predicates)
        per = 2 if many_valued else 1
        if len(rows) != per * len(preds):
            raise Bad(f'Predicates at world {w}: {len(rows)} entries for {len(preds)} predicates')
        for i, p in enumerate(preds):
            ext = rows[per * i]['values'][0]
            if ext['input'] != p:
                raise Bad('Predicates: not sorted by predicate')
            tuples = ext['output']
            if tuples != sorted(tuples):
                raise Bad('extension tuples are not sorted')
            anti = rows[per * i + 1]['values'][0]['output'] if many_valued else None
            consts = sorted(m.constants)
            for tup in itertools.product(consts, repeat=p.arity):
                if tup not in fr.predicates[p] and p.is_system:
                    continue
                v = m.value_of(p(tup), **kw)
                name = v.name
                if (tup in tuples) != (name in 'TB'):
                    raise Bad(f'extension of {p} at world {w}: {tup} listed={tup in tuples} but value {name}')
                if many_valued and (tup in anti) != (name in 'FB'):
                    raise Bad(f'anti-extension of {p} at world {w}: {tup} listed={tup in anti} but value {name}')
    return True


def _plain(d):
    if isinstance(d, dict):
        return {k: _plain(v) for k, v in d.items()}
    if isinstance(d, (list, tuple)):
        return [_plain(v) for v in d]
    if isinstance(d, SymVal):
        return ('symval', str(d.e))
    return d


def export_fn(logic, S, I, s, W, K):
    modal = S.modal
    m, worlds, consts = c08.build_model(logic, S, I, s, W, K)
    if modal:
        for i in worlds:
            for j in worlds:
                if bool(SymBool(z3.Bool(f'Rinit_{i}_{j}'))):
                    m.R.add((i, j))
    m.finish()
    check_export(m, logic, modal, bool(logic.Meta.many_valued))
    return 'ok'


def symbolic_unit(arg):
    name, thorough, budget = arg
    from pytableaux.logics import registry
    registry.import_all()
    logic = registry(name)
    S = LogicSem(name)
    A, B, F, R2, cs, x, y, O, Q, P = c08.lang()
    shapes = {'A&B': A & B, 'Fa&A': F(cs[0]) & A}
    if S.quantified:
        shapes['ExFx v A'] = Q.Existential(x, F(x)) | A
    else:
        shapes['opaque ExFx & A'] = Q.Existential(x, F(x)) & A
    if not S.modal:
        shapes['opaque MA'] = O.Possibility(A)
    if thorough:
        shapes['Rab'] = R2((cs[0], cs[1])) & B
    out = dict(logic=name, paths=0, decisions=0, queries=0, bad=[], inexhausted=[], samples=[])
    W0 = 2 if S.modal else 1
    for sname, s in shapes.items():
        K = 2 if (s.predicates or s.quantifiers) else 1
        # a binary predicate over two constants has four tuples per world: one world only in the
        # many-valued modal logics (|values|^(4 tuples x worlds) classes otherwise)
        W = 1 if (sname == 'Rab' and S.modal and S.n > 2) else W0
        I = Interp(S, 'impl', W=W + 1, K=K)
        c08.build_model(logic, S, I, s, W, K)
        ex = Explorer([c for c in I.cons if 'R_' not in str(c)], max_paths=80000, max_seconds=budget)
        paths = ex.run(lambda: export_fn(logic, S, I, s, W, K))
        st = ex.stats()
        out['paths'] += st['paths']
        out['decisions'] += st['decisions']
        out['queries'] += st['queries']
        if not st['exhausted']:
            out['inexhausted'].append(sname)
        for p in paths:
            if p.kind != 'ok':
                out['bad'].append(dict(shape=sname, error=f'{type(p.value).__name__}: {p.value}',
                                       witness=model_values(ex.witness(p))))
                if len(out['bad']) > 3:
                    break
        if paths and len(out['samples']) < 1:
            p = paths[len(paths) // 2]
            out['samples'].append(dict(logic=name, content=sname,
                                       path_condition=[str(c) for c in p.pc[:8]], outcome=str(p.value)))
    return out


def wide_model_check(logic):
    '''a directly built model with many worlds and out-of-order successor sets
    (set iteration order differs from numeric order from world 8 on)'''
    from pytableaux.lang import Atomic
    if not logic.Meta.modal:
        return []
    m = logic.Model()
    A = Atomic(0, 0)
    for w in (0, 16, 8, 3, 1, 7, 17, 9):
        m.set_value(A, 'T' if w % 2 else 'F', world=w)
    for pair in ((0, 16), (0, 8), (0, 3), (0, 1), (7, 8), (7, 7), (16, 0), (9, 17), (9, 8), (8, 17), (8, 9), (8, 1)):
        m.R.add(pair)
    m.finish()
    try:
        check_export(m, logic, True, bool(logic.Meta.many_valued))
    except Bad as e:
        return [f'wide model: {e}']
    return []


def concrete_unit(arg):
    'models read from open branches of real tableaux'
    name, argstrs, seed = arg
    from pytableaux.lang import Argument
    from pytableaux.logics import registry
    from pytableaux.proof import Tableau
    registry.import_all()
    logic = registry(name)
    out = dict(logic=name, models=0, bad=[])
    for msg in wide_model_check(logic):
        out['bad'].append(dict(argstr='(wide model)', error=f'Bad: {msg}'))
    out['models'] += 1
    for a in argstrs:
        reset_order(seed)
        try:
            tab = Tableau(logic, Argument(a), is_build_models=True, max_steps=300).build()
        except Exception as e:  # noqa: BLE001
            out['bad'].append(dict(argstr=a, error=f'build raised {type(e).__name__}: {e}'))
            continue
        for m in tab.models:
            out['models'] += 1
            try:
                check_export(m, logic, bool(logic.Meta.modal), bool(logic.Meta.many_valued))
            except Bad as e:
                out['bad'].append(dict(argstr=a, error=f'Bad: {e}'))
            except Exception as e:  # noqa: BLE001
                out['bad'].append(dict(argstr=a, error=f'{type(e).__name__}: {e}'))
    return out


def run(ctx):
    from pytableaux.logics import registry
    registry.import_all()
    rep = Report('C20', 'model_checking')
    thorough = not ctx.quick
    names = sorted(registry(n).Meta.name for n in registry.all())
    pool_args = fam.examples() + fam.M + fam.Q + fam.MQ
    with mp.Pool(ctx.jobs) as pool:
        conc = pool.map_async(concrete_unit, [
            (n, fam.select(pool_args, 25 if ctx.quick else None, ctx.seed + 5, n), ctx.seed) for n in names],
            chunksize=1)
        results = pool.map(symbolic_unit, [(n, thorough, 300 if ctx.quick else 1200) for n in names], chunksize=1)
        concs = conc.get()
    paths = trans = queries = models = 0
    samples = []
    for r in results:
        paths += r['paths']
        trans += r['decisions']
        queries += r['queries']
        samples += r['samples']
        for sname in r['inexhausted']:
            rep.inconclusive.append(f'{r["logic"]} {sname}: not exhausted')
        for b in r['bad'][:2]:
            import re
            msg = re.sub(r'\[.*?\]', '[..]', re.sub(r'\d+', '#', b['error']))
            rep.violation(f'C20|{r["logic"]}|{msg[:90]}',
                          f'{r["logic"]} model with {b["shape"]}: {b["error"]} ({b["witness"]})',
                          dict(kind='symbolic', logic=r['logic'], shape=b['shape'], witness=b['witness'],
                               thorough=thorough, error=b['error']))
    for r in concs:
        models += r['models']
        for b in r['bad'][:2]:
            import re
            msg = re.sub(r'\d+', '#', b['error'])
            msg = re.sub(r' of \S+ at world #: \(.*\) listed', ': tuple listed', msg)
            msg = re.sub(r'\[.*?\]', '[..]', msg)
            rep.violation(f'C20|{r["logic"]}|branch-model|{msg[:90]}',
                          f'{r["logic"]} {b["argstr"]}: {b["error"]}',
                          dict(kind='concrete', logic=r['logic'], argstr=b['argstr'], seed=ctx.seed,
                               error=b['error']))
    rep.coverage = dict(
        states=paths, transitions=trans, traces_validated_against_impl=models, samples=samples[:4],
        branch_models_checked=models,
        bounds=dict(worlds=2, constants=2, content='letters, a monadic predicate, an uninterpreted sentence; thorough: a binary predicate '
                                                   'over two constants (one world in the many-valued modal logics)',
                    branch_models='25 arguments per logic (quick) / all family arguments'),
        solver=dict(queries=queries),
        functions_executed=['BaseModel.get_data', 'Frame.get_data/_get_sentencemap_data/_get_predicates_data',
                            'PredicateInterpretation.having', 'Access.flat'],
        file_hashes=file_hashes(FILES), exhaustive=not rep.inconclusive,
        rule='paths of the symbolic models of C08 through get_data()')
    rep.assumptions = ['the evaluator (value_of) is the reference, as the property states; its own correctness is C08']
    return rep


def replay(data):
    from pytableaux.logics import registry
    registry.import_all()
    logic = registry(data['logic'])
    if data['kind'] == 'concrete':
        r = concrete_unit((data['logic'], [] if data['argstr'] == '(wide model)' else [data['argstr']],
                           data.get('seed', 0)))
        return bool(r['bad']), f'{data["logic"]} {data["argstr"]}: {r["bad"][:1]}'
    # symbolic: rebuild the model with the witness values
    S = LogicSem(data['logic'])
    A, B, F, R2, cs, x, y, O, Q, P = c08.lang()
    shapes = {'A&B': A & B, 'Fa&A': F(cs[0]) & A, 'ExFx v A': Q.Existential(x, F(x)) | A,
              'opaque ExFx & A': Q.Existential(x, F(x)) & A, 'opaque MA': O.Possibility(A),
              'Rab': R2((cs[0], cs[1])) & B}
    s = shapes[data['shape']]
    wit = data['witness']
    vals = logic.Meta.values
    W = 2 if S.modal else 1
    if data['shape'] == 'Rab' and S.modal and S.n > 2:
        W = 1
    K = 2 if (s.predicates or s.quantifiers) else 1
    m = logic.Model()

    def get(key):
        v = wit.get(str(key))
        if v is None:
            return vals[S.impl_unassigned]
        return vals[v] if isinstance(v, str) else vals[S.names[int(v)]]
    worlds = list(range(W))
    for w in worlds:
        m.frames[w]
        m.R[w]
    consts = cs[:K]
    if s.predicates or s.quantifiers:
        m.constants.update(consts)
    for w in worlds:
        fr = m.frames[w]
        for a_ in s.atomics:
            fr.atomics[a_] = get(('A', a_.spec, w))
        for p_ in s.predicates:
            for tup in itertools.product(range(K), repeat=p_.arity):
                fr.predicates[p_].mapping[tuple(consts[i] for i in tup)] = get(('P', p_.spec, tup, w))
        for sub in c08.subsentences(s):
            if m.is_sentence_opaque(sub):
                fr.opaques[sub] = get(('O', sub.ident, w))
    for i in worlds:
        for j in worlds:
            if wit.get(f'Rinit_{i}_{j}'):
                m.R.add((i, j))
    m.sentences.add(s)
    try:
        m.finish()
        check_export(m, logic, S.modal, bool(logic.Meta.many_valued))
    except Bad as e:
        return True, f'{data["logic"]}: {e}'
    except Exception as e:  # noqa: BLE001
        return True, f'{data["logic"]}: {type(e).__name__}: {e}'
    return False, 'export agrees with the evaluator'
