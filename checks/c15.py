"""C15 -- substitution and the derived attributes of sentences are exact.

pysymex runs the real `substitute`, `c >> q` (unquantify), `negative()` and
the published `constants / variables / predicates / atomics / operators /
quantifiers` on sentences whose *shape* is enumerated (depth <= 2 quick, 3
thorough) and whose parameters, bound variables, predicate and letter
coordinates are z3 integers; each parameter position is a symbolic pick
between a constant and a variable.  Aliasing between positions, `pnew ==
pold`, `pold` absent, nested quantifiers over shared parameters are all
reached as equality forks.  On every path the results are compared, as
ident trees with symbolic leaves, with the reference walker in spec/walker.py.
"""
from __future__ import annotations

import multiprocessing as mp

import z3

from engine import lexsym
from engine.main import Report, file_hashes
from engine.pysymex import (Explorer, ReplayDriver, SymDriver, model_values)
from spec import walker as W

FILES = ['pytableaux/lang/lex.py']


class Bad(Exception):
    pass


def eq(p, q):
    return bool(p == q)


class Builder:
    'Builds a sentence of a given shape from symbolic parts.'

    def __init__(self, ex, symbolic_index=False):
        self.ex = ex
        self.n = 0
        self.symbolic_index = symbolic_index
        self.first_done = False

    def _coords(self, tag):
        self.n += 1
        return self.ex.int(f'{tag}{self.n}_i'), self.ex.int(f'{tag}{self.n}_s')

    def param(self):
        from pytableaux.lang import Constant, Variable
        self.n += 1
        k = self.ex.pick(2, f'kind{self.n}')
        # aliasing between positions is equality of (index, subscript); the
        # index is symbolic only at the first position (it multiplies the
        # order types without adding new behaviour of substitution)
        i = self.ex.int(f'p{self.n}_i') if self.symbolic_index and not self.first_done else 0
        self.first_done = True
        s = self.ex.int(f'p{self.n}_s')
        return (Constant, Variable)[k](i, s)

    def var(self):
        from pytableaux.lang import Variable
        self.n += 1
        return Variable(0, self.ex.int(f'v{self.n}_s'))

    def const(self):
        from pytableaux.lang import Constant
        return Constant(*self._coords('c'))

    def pred(self, arity):
        from pytableaux.lang import Predicate
        return Predicate(arity - 1, 0, arity)

    def atom(self):
        from pytableaux.lang import Atomic
        self.n += 1
        return Atomic(0, self.ex.int(f'a{self.n}_s'))


def shapes(thorough):
    from pytableaux.lang import Operator as O
    from pytableaux.lang import Predicate, Quantifier as Q

    def F(b):
        return b.pred(1)(b.param())

    def R(b):
        return b.pred(2)((b.param(), b.param()))

    def Id(b):
        return Predicate.Identity((b.param(), b.param()))
    sh = {
        'A': lambda b: b.atom(),
        'Fp': F,
        'Rpp': R,
        'p=p': Id,
        '~Fp': lambda b: ~F(b),
        '~~A': lambda b: ~~b.atom(),
        'Fp&Rpp': lambda b: F(b) & R(b),
        'Rpp>A': lambda b: O.Conditional(R(b), b.atom()),
        'QvFp': lambda b: list(Q)[b.ex.pick(2, 'q')](b.var(), F(b)),
        'QvRpp': lambda b: list(Q)[b.ex.pick(2, 'q')](b.var(), R(b)),
        'Qv(Fp&A)': lambda b: Q.Universal(b.var(), F(b) & b.atom()),
        'QvQvRpp': lambda b: Q.Existential(b.var(), Q.Universal(b.var(), R(b))),
        '~QvFp': lambda b: ~Q.Existential(b.var(), F(b)),
        'MFp': lambda b: O.Possibility(F(b)),
        # binary operators whose operands may be the very same sentence
        # (hash-consing: equal operands are one object)
        'A&A': lambda b: b.atom() & b.atom(),
        'QvFp&QvFp': lambda b: Q.Universal(b.var(), F(b)) & Q.Universal(b.var(), F(b)),
        '~A%~A': lambda b: O.Biconditional(~b.atom(), ~b.atom()),
    }
    if thorough:
        sh.update({
            'Qv(Fp&QvRpp)': lambda b: Q.Existential(b.var(), F(b) & Q.Universal(b.var(), R(b))),
            '(Fp|Rpp)&~p=p': lambda b: (F(b) | R(b)) & ~Id(b),
            'L(QvRpp>Fp)': lambda b: O.Necessity(O.Conditional(Q.Existential(b.var(), R(b)), F(b))),
        })
    return sh


def check_fn(ex, shape, thorough, evict=True):
    from pytableaux.lang import Constant, Quantified, Variable
    lexsym.reset_cache()
    b = Builder(ex, symbolic_index=shape in ('Fp', 'Rpp', 'QvFp'))
    s = shapes(thorough)[shape](b)
    ex.note('shape', shape)
    ident = s.ident
    # --- derived attributes
    ps = W.params(ident)
    wc = [p for p in ps if p[0] == 'Constant']
    wv = [p for p in ps if p[0] == 'Variable']
    if not W.same_set([c.ident for c in s.constants], wc, eq):
        raise Bad('constants differ from the walk of the structure')
    if not W.same_set([v.ident for v in s.variables], wv, eq):
        raise Bad('variables differ from the walk of the structure')
    if not W.same_set([p.spec for p in s.predicates], W.predicates(ident), eq):
        raise Bad('predicates differ from the walk of the structure')
    if not W.same_set([a.spec for a in s.atomics], W.atomics(ident), eq):
        raise Bad('atomics differ from the walk of the structure')
    if [o.name for o in s.operators] != W.operators(ident):
        raise Bad('operators (prefix order) differ from the walk of the structure')
    if [q.name for q in s.quantifiers] != W.quantifiers(ident):
        raise Bad('quantifiers (prefix order) differ from the walk of the structure')
    # the sets must be duplicate free under symbolic equality
    for coll in (list(s.constants), list(s.variables)):
        for i, x in enumerate(coll):
            for y in coll[:i]:
                if eq(x, y):
                    raise Bad('a published parameter set holds two equal members')
    # --- substitution
    sym_i = b.symbolic_index
    # cache history: the parameters are built after the eviction of the item cache (equal items
    # are then distinct objects -- what a symbolic run gives anyway, made explicit so that concrete
    # replays agree); the warm-cache case (shared objects) is validated concretely per path
    if evict:
        lexsym.reset_cache()
    pnew = (Constant, Variable)[ex.pick(2, 'newkind')](ex.int('new_i') if sym_i else 0, ex.int('new_s'))
    pold = (Constant, Variable)[ex.pick(2, 'oldkind')](ex.int('old_i') if sym_i else 0, ex.int('old_s'))
    r = s.substitute(pnew, pold)
    want = W.substitute(ident, pnew.ident, pold.ident, eq)
    if not W.tree_eq(r.ident, want, eq):
        raise Bad('substitute(pnew, pold) differs from replacing exactly the occurrences of pold')
    # --- unquantify
    if type(s) is Quantified:
        c = Constant(ex.int('new_i') if sym_i else 0, ex.int('new_s'))
        r2 = c >> s
        want2 = W.substitute(ident[1][2], c.ident, ('Variable', s.variable.spec), eq)
        if not W.tree_eq(r2.ident, want2, eq):
            raise Bad('c >> q differs from substituting c for the bound variable in the body')
        if not W.tree_eq(s.unquantify(c).ident, want2, eq):
            raise Bad('unquantify(c) differs')
    # --- negative
    n = s.negative()
    if ident[0] == 'Operated' and ident[1][0] == 'Negation':
        if not W.tree_eq(n.ident, ident[1][1][0], eq):
            raise Bad('negative() of a negation is not its operand')
    else:
        if not W.tree_eq(n.ident, ('Operated', ('Negation', (ident,))), eq):
            raise Bad('negative() of a non-negation is not its negation')
    if not W.tree_eq((-s).ident, n.ident, eq):
        raise Bad('-s differs from negative()')
    return shape


def preconds():
    pre = []
    for n in range(1, 14):
        for tag, maxi in (('p', 3), ('v', 3), ('c', 3), ('q', 3), ('a', 4)):
            i, s = z3.Int(f'{tag}{n}_i'), z3.Int(f'{tag}{n}_s')
            pre += [i >= 0, i <= maxi, s >= 0]
    for tag in ('new', 'old'):
        i, s = z3.Int(f'{tag}_i'), z3.Int(f'{tag}_s')
        pre += [i >= 0, i <= 3, s >= 0]
    return pre


def unit(arg):
    shape, thorough, budget = arg
    lexsym.install_hash_abstraction()
    drv = SymDriver()
    ex = Explorer(preconds(), max_paths=1_000_000, max_seconds=budget)
    paths = ex.run(lambda: check_fn(drv, shape, thorough))
    bad = []
    for p in paths:
        if p.kind != 'ok':
            bad.append(dict(shape=shape, error=f'{type(p.value).__name__}: {p.value}',
                            picks=list(p.picks), witness=model_values(ex.witness(p)),
                            thorough=thorough, evict=True))
    # concrete validation with a warm cache (equal items are one shared object)
    lexsym.remove_hash_abstraction()
    validated = 0
    step = max(1, len(paths) // 40)
    for p in paths[::step]:
        if p.kind != 'ok':
            continue
        wit = model_values(ex.witness(p))
        try:
            check_fn(ReplayDriver(list(p.picks), wit), shape, thorough, evict=False)
            validated += 1
        except Exception as e:  # noqa: BLE001
            bad.append(dict(shape=shape, error=f'warm cache: {type(e).__name__}: {e}', picks=list(p.picks),
                            witness=wit, thorough=thorough, evict=False))
    samples = []
    if paths:
        p = paths[len(paths) // 2]
        samples.append(dict(shape=shape, path_condition=[str(c) for c in p.pc[:10]],
                            witness=model_values(ex.witness(p)), outcome=p.kind))
    return dict(shape=shape, stats=ex.stats(), bad=bad[:5], nbad=len(bad), validated=validated,
                ok=sum(1 for p in paths if p.kind == 'ok'), samples=samples)


def run(ctx):
    rep = Report('C15', 'model_checking')
    thorough = not ctx.quick
    budget = 400 if ctx.quick else 2400
    names = list(shapes(thorough))
    with mp.Pool(ctx.jobs) as pool:
        results = pool.map(unit, [(n, thorough, budget) for n in names], chunksize=1)
    paths = trans = queries = 0
    st_time = 0.0
    samples = []
    for r in results:
        st = r['stats']
        paths += st['paths']
        trans += st['decisions'] + st['picks']
        queries += st['queries']
        st_time += st['solver_time_s']
        samples += r['samples']
        if not st['exhausted']:
            rep.inconclusive.append(f'shape {r["shape"]}: not exhausted ({st["paths"]} paths)')
        if r['ok'] == 0 and not r['bad']:
            rep.harness_error(f'shape {r["shape"]}: no path completed')
        seen = set()
        for b in r['bad']:
            short = b['error'].split(': ', 1)[-1][:80]
            key = f'C15|{b["shape"]}|{short}'
            if key in seen:
                continue
            seen.add(key)
            rep.violation(key, f'shape {b["shape"]}: {b["error"]} with {b["witness"]}',
                          dict(shape=b['shape'], picks=b['picks'], witness=b['witness'],
                               thorough=b['thorough'], error=b['error'], evict=b.get('evict', True)))
    rep.coverage = dict(
        states=paths, transitions=trans, traces_validated_against_impl=sum(r.get('validated', 0) for r in results),
        samples=samples[:6],
        bounds=dict(shapes=names, depth=3 if thorough else 2,
                    parameters='every position constant-or-variable (symbolic pick) with symbolic '
                               'subscript >= 0 (index symbolic too for the shapes Fp, Rpp, QvFp); pnew, '
                               'pold likewise; predicates fixed, letter subscripts symbolic'),
        solver=dict(queries=queries, solver_time_s=round(st_time, 2)),
        functions_executed=['Sentence.substitute', 'Predicated.substitute', 'Quantified.substitute/unquantify',
                            'Operated.substitute', 'Constant.__rshift__', 'Sentence.negative/__neg__',
                            'lazy props constants/variables/predicates/atomics/operators/quantifiers'],
        stubs=['lexical __hash__ replaced by the type rank (engine/lexsym.py)'],
        file_hashes=file_hashes(FILES), exhaustive=not rep.inconclusive,
        rule='paths = parameter kinds x equality types of all symbolic coordinates per shape')
    rep.assumptions = ['reference semantics in spec/walker.py: substitution replaces parameter occurrences '
                       'in predications only (binding occurrences of quantifiers are not parameters)']
    return rep


def replay(data):
    drv = ReplayDriver(data['picks'], data['witness'])
    try:
        check_fn(drv, data['shape'], data.get('thorough', False), evict=data.get('evict', True))
    except Bad as e:
        return True, f'shape {data["shape"]} with {data["witness"]}: {e}'
    except Exception as e:  # noqa: BLE001
        return True, f'shape {data["shape"]}: {type(e).__name__}: {e}'
    return False, f'shape {data["shape"]}: exact with {data["witness"]}'
