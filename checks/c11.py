"""C11 -- declared logic extensions preserve validity.

Semantic lemma, per declared pair "L extends L'" (Meta.extension_of): z3
*finds* a map e from the truth values of L to those of L' that commutes with
every truth-functional operator, preserves and reflects designation and
commutes with the generalised disjunction / conjunction over value sets of
size <= 3 (quantifiers, modal operators); together with frame-class inclusion
(every frame of L is a frame of L', decided by z3 over all relations on <= 3
worlds) every L-countermodel becomes an L'-countermodel, so what is valid in
L' is valid in L.  No such map = the declaration is not backed by the
semantics.  Done on the specification tables and on the tables extracted from
the code.

Prover cross-check: for every argument shape of the families and every pair,
valid in L' (real run) implies not refuted by a limit-free open branch in L;
on the propositional family, valid in L.
"""
from __future__ import annotations

import itertools
import multiprocessing as mp

import z3

from engine.main import Report, file_hashes
from engine.semz3 import LogicSem, Stats, frame_constraint, ite_table
from families import args as fam
from families import prover
from spec import tables as spec

FILES = ['pytableaux/logics/__init__.py']


SPECIAL = ['Lc:LKMaLc', 'Mb:LMa:Ma:b', 'LLc:LKMaLc', 'Mb:LMa:b', 'SxFx:Fm', 'Ma:LMa', 'b:La:LMb']


def pairs():
    from pytableaux.logics import registry
    registry.import_all()
    out = []
    for n in sorted(registry.all()):
        L = registry(n)
        for weaker in L.Meta.extension_of:
            out.append((L.Meta.name, registry(weaker).Meta.name))
    return out


def gen_table(S, kind, flavour):
    'value-set pattern -> value index, via spec.generalize'
    t = {}
    for pattern in itertools.product((0, 1), repeat=S.n):
        present = [S.names[i] for i, p in enumerate(pattern) if p]
        t[pattern] = S.idx[spec.generalize(S.base, flavour, kind, present)]
    return t


def embedding(SL, SW, which, stats):
    """z3 search for e: values(L) -> values(L').  Returns (status, model|None)."""
    e = [z3.Int(f'e{i}') for i in range(SL.n)]
    s = z3.Solver()
    for x in e:
        s.add(x >= 0, x < SW.n)
    TL, TW = SL.tables(which), SW.tables(which)
    for opname in spec.OPERATORS:
        for k, v in TL[opname].items():
            s.add(e[v] == ite_table(TW[opname], [e[i] for i in k]))
    dL, dW = SL.designated(which), SW.designated(which)
    for i in range(SL.n):
        isdes = z3.Or(*[e[i] == j for j in dW])
        s.add(isdes if i in dL else z3.Not(isdes))
    # generalised connectives: only where both logics interpret them
    for kind, flav_key in (('E', 'quant'), ('A', 'quant'), ('E', 'modal_flavour'), ('A', 'modal_flavour')):
        fL, fW = SL.info[flav_key], SW.info[flav_key]
        if fL is None or fW is None:
            continue
        gL = gen_table(SL, kind, fL)
        gW = gen_table(SW, kind, fW)
        for size in range(0, 4):
            for vals in itertools.combinations_with_replacement(range(SL.n), size):
                patL = tuple(1 if i in vals else 0 for i in range(SL.n))
                res = gL[patL]
                # image pattern in L'
                has = [z3.Or(*[e[v] == j for v in vals]) if vals else z3.BoolVal(False) for j in range(SW.n)]
                term = None
                items = list(gW.items())
                term = z3.IntVal(items[-1][1])
                for pat, out in items[:-1]:
                    cond = z3.And(*[h if p else z3.Not(h) for h, p in zip(has, pat)])
                    term = z3.If(cond, z3.IntVal(out), term)
                s.add(e[res] == term)
    r = stats.check(s)
    if r == z3.sat:
        m = s.model()
        return 'found', {SL.names[i]: SW.names[m.eval(e[i], model_completion=True).as_long()]
                         for i in range(SL.n)}
    return ('none' if r == z3.unsat else 'unknown'), None


def frames_included(fL, fW, stats, W=3):
    'every relation on W worlds meeting L\'s condition meets L\'\'s'
    if fW in (None, 'none'):
        return True
    if fL is None:
        # a non-modal logic below a modal one does not arise; treat as included
        return True
    R = {(i, j): z3.Bool(f'R_{i}_{j}') for i in range(W) for j in range(W)}
    s = z3.Solver()
    s.add(*frame_constraint(fL, W, lambda i, j: R[i, j]))
    cw = frame_constraint(fW, W, lambda i, j: R[i, j])
    s.add(z3.Not(z3.And(*cw)) if cw else z3.BoolVal(False))
    return stats.check(s) == z3.unsat


def lemma_unit(pair):
    L, Wk = pair
    stats = Stats()
    SL, SW = LogicSem(L), LogicSem(Wk)
    out = dict(pair=pair, results={}, frames=None, bad=[])
    for which in ('spec', 'impl'):
        st, m = embedding(SL, SW, which, stats)
        out['results'][which] = (st, m)
        if st == 'none':
            out['bad'].append(f'no designation-preserving homomorphism from the values of {L} to those of {Wk} '
                              f'({which} tables)')
        elif st == 'unknown':
            out['bad'].append('unknown')
    inc = frames_included(SL.info['frame'], SW.info['frame'], stats)
    out['frames'] = inc
    if not inc:
        out['bad'].append(f'frame class of {L} ({SL.info["frame"]}) is not included in that of {Wk} '
                          f'({SW.info["frame"]})')
    out['stats'] = stats.asdict()
    return out


def run_unit(arg_):
    L, Wk, shapes, pshapes, seed = arg_
    from pytableaux.logics import registry
    registry.import_all()
    out = dict(pair=(L, Wk), runs=0, bad=[], valid_in_weaker=0)
    for argstr, prop in [(a, False) for a in shapes] + [(a, True) for a in pshapes]:
        try:
            tw = prover.build(Wk, argstr, seed, max_steps=400)
        except Exception:  # noqa: BLE001
            continue
        out['runs'] += 1
        if prover.outcome(tw) != 'valid':
            continue
        out['valid_in_weaker'] += 1
        tl = prover.build(L, argstr, seed, max_steps=400)
        out['runs'] += 1
        cl = prover.outcome(tl)
        if cl == 'invalid' or (prop and cl != 'valid'):
            out['bad'].append(dict(argstr=argstr, why=f'valid in {Wk} but {cl} in {L}',
                                   rules=sorted(set(prover.rules_applied(tw)) | set(prover.rules_applied(tl))),
                                   rules_weaker=prover.rules_applied(tw)))
    return out


def run(ctx):
    rep = Report('C11', 'model_checking')
    ps = pairs()
    pool = fam.examples() + fam.M + fam.Q + fam.MQ
    props = fam.prop(0) + fam.prop(1)
    units = []
    for (L, Wk) in ps:
        sel = fam.select(pool, 30 if ctx.quick else None, ctx.seed + 21, L + Wk) + SPECIAL
        psel = fam.select(props, 60 if ctx.quick else None, ctx.seed + 22, L + Wk)
        # compound premise next to a literal deciding one operand; depth-1 premise/conclusion pairs
        psel += fam.select(fam.side_premise(), 60 if ctx.quick else None, ctx.seed + 24, L + Wk)
        psel += fam.select(fam.depth1_pairs(), 60 if ctx.quick else None, ctx.seed + 25, L + Wk)
        if not ctx.quick:
            psel += fam.select(fam.prop(2), 1500, ctx.seed + 23, L + Wk)
        psel = list(dict.fromkeys(psel))
        units.append((L, Wk, sel, psel, ctx.seed))
    with mp.Pool(ctx.jobs) as pool_:
        ar = pool_.map_async(run_unit, units, chunksize=1)
        lres = pool_.map(lemma_unit, ps, chunksize=2)
        rres = ar.get()
    stats = Stats()
    samples = []
    lemma_ok = 0
    for r in lres:
        stats.merge(r['stats'])
        L, Wk = r['pair']
        if not r['bad']:
            lemma_ok += 1
        if len(samples) < 4:
            samples.append(dict(pair=f'{L} extends {Wk}', embedding_spec=r['results']['spec'][1],
                                embedding_impl=r['results']['impl'][1], frames_included=r['frames']))
        for b in r['bad']:
            if b == 'unknown':
                rep.inconclusive.append(f'{L} extends {Wk}: z3 unknown')
                continue
            kind = 'frames' if b.startswith('frame') else ('impl' if 'impl tables' in b else 'spec')
            rep.violation(f'C11|lemma|{L}>{Wk}|{kind}', f'{L} extends {Wk}: {b}',
                          dict(kind='lemma', L=L, W=Wk, which=kind))
    runs = vw = 0
    for r in rres:
        runs += r['runs']
        vw += r['valid_in_weaker']
        L, Wk = r['pair']
        for b in r['bad']:
            # attribute to a known inexact rule of either logic
            key = prover.attribute('C11', Wk, b['argstr'], b['rules_weaker'])
            if 'inexact-rule' not in key:
                key = prover.attribute('C11', L, b['argstr'], b['rules'])
            if 'inexact-rule' not in key:
                key = f'C11|{L}>{Wk}|{b["argstr"]}'
            rep.violation(key, f'{L} extends {Wk}: {b["argstr"]} {b["why"]}',
                          dict(kind='run', L=L, W=Wk, argstr=b['argstr'], seed=ctx.seed))
    rep.coverage = dict(
        states=len(ps) * 2 + runs, transitions=runs, traces_validated_against_impl=0, samples=samples,
        declared_pairs=len(ps), lemma_pairs_discharged=lemma_ok, prover_runs=runs,
        arguments_valid_in_weaker=vw,
        bounds=dict(value_sets='size <= 3 for generalised connectives', worlds=3,
                    arguments='30 family + 7 fixed + 60 of P(0..1) + 60 side-premise + 60 depth-1 pairs per pair (by seed)' if ctx.quick else 'all family + P(0..1) + side-premise (144) + depth-1 pairs + 1500 of P(2)'),
        solver=stats.asdict(),
        functions_executed=['Meta.extension_of (registry)', 'Model.truth_function (extracted tables)',
                            'Tableau.build in both logics of each pair'],
        file_hashes=file_hashes(FILES), exhaustive=not rep.inconclusive,
        rule='one embedding query per pair and table source; one frame-inclusion query per pair')
    rep.assumptions = ['an embedding that commutes with all operators and generalised connectives and reflects '
                       'designation transfers countermodels (standard argument)',
                       'uninterpreted (opaque) sentences of the weaker logic keep their value']
    return rep


def replay(data):
    from pytableaux.logics import registry
    registry.import_all()
    if data['kind'] == 'lemma':
        # brute force, no solver: enumerate every map between the value sets
        SL, SW = LogicSem(data['L']), LogicSem(data['W'])
        which = data.get('which', 'spec')
        if which == 'frames':
            r = lemma_unit((data['L'], data['W']))
            return not r['frames'], f'{data["L"]} extends {data["W"]}: frames included = {r["frames"]}'
        TL, TW = SL.tables(which), SW.tables(which)
        dL, dW = set(SL.designated(which)), set(SW.designated(which))
        found = None
        for e in itertools.product(range(SW.n), repeat=SL.n):
            ok = all((i in dL) == (e[i] in dW) for i in range(SL.n))
            if ok:
                for opname in spec.OPERATORS:
                    for k, v in TL[opname].items():
                        if e[v] != TW[opname][tuple(e[i] for i in k)]:
                            ok = False
                            break
                    if not ok:
                        break
            if ok:
                for kind, key in (('E', 'quant'), ('A', 'quant'), ('E', 'modal_flavour'), ('A', 'modal_flavour')):
                    fL, fW = SL.info[key], SW.info[key]
                    if fL is None or fW is None:
                        continue
                    for size in range(0, 4):
                        for vals in itertools.combinations_with_replacement(range(SL.n), size):
                            a = SL.idx[spec.generalize(SL.base, fL, kind, [SL.names[i] for i in vals])]
                            b = SW.idx[spec.generalize(SW.base, fW, kind, [SW.names[e[i]] for i in vals])]
                            if e[a] != b:
                                ok = False
            if ok:
                found = e
                break
        return found is None, (f'{data["L"]} extends {data["W"]} ({which} tables): '
                               + ('no map between the value sets commutes with the operators, the generalised '
                                  'connectives and designation' if found is None else f'embedding {found} exists'))
    tw = prover.outcome(prover.build(data['W'], data['argstr'], data.get('seed', 0), max_steps=400))
    tl = prover.outcome(prover.build(data['L'], data['argstr'], data.get('seed', 0), max_steps=400))
    return tw == 'valid' and tl == 'invalid', f'{data["argstr"]}: {data["W"]} {tw}, {data["L"]} {tl}'
