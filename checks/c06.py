"""C06 -- new constants and new worlds are always fresh.

pysymex runs the *real* `Branch` (append / copy / new_constant / new_world)
on symbolic histories: every step is an n-ary symbolic pick among "append a
sentence node mentioning one or two constants", "append a letter at a
world", "append an access node", "copy the branch and go on with either";
constants are built by the real `Constant` constructor from z3 integers
(index in 0..3, subscript >= 0 unbounded), world numbers are z3 integers >= 0.
After every step, on every live branch, z3 decides that the offered constant
is different from every constant of every sentence on the branch and that the
offered world exceeds every world on it (a path on which equality / not-greater
is feasible is a counterexample); the branch's published `constants` / `worlds`
must equal the ones recomputed from its own nodes (copies are independent).
The use of the fresh items by witness rules is asserted in C04 (the witness
name must be new on the branch, with context constants in adverse order).
"""
from __future__ import annotations

import multiprocessing as mp

import z3

from engine import lexsym
from engine.main import Report, file_hashes
from engine.pysymex import (Explorer, ReplayDriver, SymDriver, SymInt, SymIntI,
                            model_values)

FILES = ['pytableaux/proof/common.py', 'pytableaux/lang/lex.py']

KINDS = ('const1', 'const2', 'world', 'access', 'copy')


class NotFresh(Exception):
    pass


def mk_const(ex, name):
    from pytableaux.lang import Constant
    return Constant(ex.int(f'{name}_i'), ex.int(f'{name}_s'))


def mk_world(ex, name):
    v = ex.int(name)
    if isinstance(v, SymInt):
        return SymIntI(v.e)
    return v


def check_branch(b, what):
    from pytableaux.proof import Branch
    nc = b.new_constant()
    nw = b.new_world()
    consts = []
    worlds = []
    for node in b:
        s = node.get('sentence')
        if s is not None:
            for c in s.constants:
                consts.append(c)
        for key in ('world', 'world1', 'world2'):
            w = node.get(key)
            if w is not None:
                worlds.append(w)
    for c in consts:
        if bool(nc == c):
            raise NotFresh(f'{what}: new_constant() occurs in a sentence on the branch')
        found = False
        for d in b.constants:
            if bool(d == c):
                found = True
                break
        if not found:
            raise NotFresh(f'{what}: a constant of a sentence on the branch is missing from branch.constants')
    for d in b.constants:
        if bool(nc == d):
            raise NotFresh(f'{what}: new_constant() is in branch.constants')
        found = False
        for c in consts:
            if bool(d == c):
                found = True
                break
        if not found:
            raise NotFresh(f'{what}: branch.constants holds a constant of no sentence on the branch')
    for w in worlds:
        if not bool(nw > w):
            raise NotFresh(f'{what}: new_world() does not exceed a world on the branch')
        found = False
        for u in b.worlds:
            if bool(u == w):
                found = True
                break
        if not found:
            raise NotFresh(f'{what}: a world of a node is missing from branch.worlds')
    for u in b.worlds:
        found = False
        for w in worlds:
            if bool(u == w):
                found = True
                break
        if not found:
            raise NotFresh(f'{what}: branch.worlds holds a world of no node on the branch')
    if isinstance(nw, int) and not isinstance(nw, SymIntI) and nw < 0:
        raise NotFresh(f'{what}: negative new world')


def harness(first_kinds, n_steps, kinds=KINDS, second_kinds=None):
    from pytableaux.lang import Atomic, Predicate
    from pytableaux.proof import Branch, anode, swnode
    F = Predicate(0, 0, 1)
    R2 = Predicate(0, 1, 2)

    def fn(ex=None):
        ex = ex or SymDriver()
        lexsym.reset_cache()
        branches = [Branch()]
        log = []
        ex.note('log', log)
        n = 1 + ex.pick(n_steps, 'len')
        for k in range(n):
            if k == 0:
                kind = first_kinds[ex.pick(len(first_kinds), 'kind0')]
            elif k == 1 and second_kinds:
                kind = second_kinds[ex.pick(len(second_kinds), 'kind1')]
            else:
                kind = kinds[ex.pick(len(kinds), f'kind{k}')]
            bi = ex.pick(len(branches), f'b{k}') if len(branches) > 1 else 0
            b = branches[bi]
            if kind == 'const1':
                c = mk_const(ex, f'c{k}')
                b.append(swnode(F(c), None))
            elif kind == 'const2':
                c = mk_const(ex, f'c{k}')
                d = mk_const(ex, f'd{k}')
                b.append(swnode(R2((c, d)), None))
            elif kind == 'world':
                # a letter at a symbolic world: Branch.append tracks worlds and
                # constants in two independent blocks
                b.append(swnode(Atomic(0, 0), mk_world(ex, f'w{k}')))
            elif kind == 'access':
                b.append(anode(mk_world(ex, f'w{k}'), mk_world(ex, f'u{k}')))
            else:
                branches.append(b.copy(parent=b))
            log.append((kind, bi))
            for j, br in enumerate(branches):
                check_branch(br, f'after step {k} ({kind} on branch {bi}), branch {j}')
        return len(log)
    return fn


def preconds(n_steps):
    pre = []
    for k in range(n_steps):
        for nm in ('c', 'd'):
            i, s = z3.Int(f'{nm}{k}_i'), z3.Int(f'{nm}{k}_s')
            pre += [i >= 0, i <= 3, s >= 0]
        for nm in ('w', 'u'):
            pre.append(z3.Int(f'{nm}{k}') >= 0)
    return pre


def unit(arg):
    first, n_steps, budget, kinds, second, case = arg
    lexsym.install_hash_abstraction()
    fn = harness([first], n_steps, kinds, second)
    pre = preconds(n_steps)
    if case is not None:
        # partition of the input space by the order type of the first two constants
        cs, ds, ci, di = z3.Int('c0_s'), z3.Int('d0_s'), z3.Int('c0_i'), z3.Int('d0_i')
        pre.append([cs < ds, cs > ds, z3.And(cs == ds, ci < di), z3.And(cs == ds, ci == di),
                    z3.And(cs == ds, ci > di)][case])
    ex = Explorer(pre, max_paths=3_000_000, max_seconds=budget)
    paths = ex.run(fn)
    bad = []
    ok = 0
    for p in paths:
        if p.kind == 'ok':
            ok += 1
            continue
        wit = model_values(ex.witness(p))
        bad.append(dict(error=f'{type(p.value).__name__}: {p.value}', picks=list(p.picks),
                        witness=wit, log=[list(map(str, t)) for t in p.notes.get('log', [])],
                        first=first, n_steps=n_steps, kinds=list(kinds), second=second))
    samples = []
    for p in paths[:1] + paths[-1:]:
        samples.append(dict(history=[list(map(str, t)) for t in p.notes.get('log', [])],
                            path_condition=[str(c) for c in p.pc[:10]],
                            witness=model_values(ex.witness(p)), outcome=p.kind))
    return dict(first=f'{first}>{second} case={case}', stats=ex.stats(), bad=bad[:10], nbad=len(bad), ok=ok, samples=samples)


def witness_unit(name):
    '''Every rule that introduces a witness uses a fresh item: the real rule
    objects of one logic on real branches whose constants / worlds are in
    adverse order (the highest name is not the one the rule works on).'''
    from pytableaux.lang import Atomic, Constant, Operator, Predicate, Quantifier, Variable
    from pytableaux.logics import registry
    from pytableaux.proof import Tableau, anode, sdwnode
    from pytableaux.proof.helpers import MaxConsts
    from engine.tabutil import reset_order
    registry.import_all()
    logic = registry(name)
    modal = bool(logic.Meta.modal)
    A = Atomic(0, 0)
    F, G = Predicate(0, 0, 1), Predicate(1, 0, 1)
    x = Variable(0, 0)
    out = dict(logic=name, cases=0, bad=[])
    fde = any(getattr(r, 'designation', None) is not None for r in logic.Rules.all())
    for rulecls in logic.Rules.all():
        if getattr(rulecls, 'closure', False):
            continue
        d = getattr(rulecls, 'designation', None)
        neg = bool(getattr(rulecls, 'negated', False))
        q = getattr(rulecls, 'quantifier', None)
        op = getattr(rulecls, 'operator', None)
        ctxs = []
        from pytableaux.proof import rules as R_
        is_q_witness = (q is not None and issubclass(rulecls, R_.NarrowQuantifierRule)
                        and not issubclass(rulecls, R_.ExtendedQuantifierRule))
        is_m_witness = (op in (Operator.Possibility, Operator.Necessity)
                        and issubclass(rulecls, R_.ModalOperatorRule) and rulecls.ticking)
        if is_q_witness:
            s = q(x, F(x))
            if neg:
                s = ~s
            w0 = 0 if modal else None
            for consts in ([Constant(1, 0), Constant(0, 0)], [Constant(0, 1), Constant(3, 0)],
                           [Constant(2, 0)], [Constant(0, 2), Constant(0, 0), Constant(1, 0)]):
                ctxs.append(([sdwnode(G(c), d, w0) for c in consts], sdwnode(s, d, w0)))
        elif is_m_witness:
            s = op(A)
            if neg:
                s = ~s
            for acc, w in (([(0, 2)], 0), ([(0, 1), (1, 3)], 1), ([(2, 1)], 1), ([(0, 1), (0, 2)], 1)):
                ctxs.append(([anode(*p) for p in acc] + [sdwnode(A, d, max(max(p) for p in acc))],
                             sdwnode(s, d, w)))
        elif rulecls.name == 'Serial':
            dd = True if fde else None
            for worlds, acc in (([0, 1, 2], [(1, 2), (2, 2)]), ([0, 1], [(1, 1)]), ([0, 2], [(2, 0)]),
                                ([1, 3], [(3, 3)])):
                ctxs.append(([sdwnode(Atomic(i, 0), dd, w) for i, w in enumerate(worlds)]
                             + [anode(*p) for p in acc], None))
        for ctx, node in ctxs:
            reset_order()
            tab = Tableau(logic)
            rule = tab.rules.get(rulecls)
            branch = tab.branch()
            for r_ in tab.rules:
                h = r_.helpers.get(MaxConsts)
                if h is not None:
                    h[branch] = 1000
            branch.extend(ctx)
            if node is not None:
                branch.append(node)
            consts0 = set(branch.constants)
            worlds0 = set(branch.worlds)
            target = rule.target(branch)
            if target is None or 'adds' not in target:
                continue
            out['cases'] += 1
            newc, neww = set(), set()
            for g in target['adds']:
                for n in g:
                    s_ = n.get('sentence')
                    if s_ is not None:
                        newc |= set(s_.constants)
                    for k in ('world', 'world1', 'world2'):
                        if n.get(k) is not None:
                            neww.add(n[k])
            # the witness is the name in the additions that the expanded node does not mention
            base_c = set(node['sentence'].constants) if node is not None else set()
            wit_c = newc - base_c
            if is_q_witness and wit_c & consts0:
                out['bad'].append(dict(rule=rulecls.name, what=f'witness constant {sorted(map(str, wit_c & consts0))} '
                                       f'already on the branch (constants {sorted(map(str, consts0))})'))
            if is_q_witness and not wit_c:
                out['bad'].append(dict(rule=rulecls.name, what='no witness constant introduced'))
            if not is_q_witness:
                src = node['world'] if node is not None else None
                wit_w = {w for w in neww if w != src and not (node is None and w in worlds0 and any(
                    n.get('world1') == w for g in target['adds'] for n in g))}
                fresh = neww - worlds0
                if not fresh:
                    out['bad'].append(dict(rule=rulecls.name, what=f'no fresh world: additions use {sorted(neww)} '
                                           f'on a branch with worlds {sorted(worlds0)}'))
    return out


def run(ctx):
    rep = Report('C06', 'model_checking')
    n_steps = 3 if ctx.quick else 4
    budget = 600 if ctx.quick else 3000
    light = ('const1', 'world', 'access', 'copy')
    deep, shallow = (3, 2) if ctx.quick else (4, 3)
    units = [(k, deep, budget, light, [k2], None) for k in light if k != 'copy' for k2 in light]
    if ctx.quick:
        units += [(k, shallow, budget, KINDS, [k2], None) for k in KINDS if k != 'copy' for k2 in KINDS
                  if 'const2' in (k, k2) and (k, k2) != ('const2', 'const2')]
        units += [('const2', shallow, budget, KINDS, ['const2'], case) for case in range(5)]
    else:
        # three steps with two-constant sentences.  Two constant-bearing steps followed by a third
        # constant-bearing one do not exhaust within the budget (measured: > 80 000 paths per unit):
        # there the third step is a world, an access node or a copy; every unit is one third-step kind.
        heavy = {('const2', 'const2'), ('const1', 'const2'), ('const2', 'const1')}
        for k in KINDS:
            for k2 in KINDS:
                if k == 'copy' or 'const2' not in (k, k2):
                    continue
                thirds = ('world', 'access', 'copy') if (k, k2) in heavy else KINDS
                cases = range(5) if (k, k2) == ('const2', 'const2') else (None,)
                for k3 in thirds:
                    for case in cases:
                        units.append((k, shallow, budget, [k3], [k2], case))
    units.sort(key=lambda u: (u[0], u[4]) != ('const2', ['const2']))
    from pytableaux.logics import registry
    registry.import_all()
    names = sorted(registry(n).Meta.name for n in registry.all())
    with mp.Pool(ctx.jobs) as pool:
        wres = pool.map_async(witness_unit, names, chunksize=2)
        results = pool.map(unit, units, chunksize=1)
        wres = wres.get()
    witness_cases = 0
    for r in wres:
        witness_cases += r['cases']
        seen_w = set()
        for b in r['bad']:
            key = f'C06|witness|{r["logic"]}|{b["rule"]}'
            if key in seen_w:
                continue
            seen_w.add(key)
            rep.violation(key, f'{r["logic"]} {b["rule"]}: {b["what"]}',
                          dict(kind='witness', logic=r['logic'], rule=b['rule']))
    paths = trans = queries = 0
    st_time = 0.0
    samples = []
    for r in results:
        st = r['stats']
        paths += st['paths']
        trans += st['decisions'] + st['picks']
        queries += st['queries']
        st_time += st['solver_time_s']
        samples += r['samples'][:1]
        if not st['exhausted']:
            rep.inconclusive.append(f'first step {r["first"]}: not exhausted ({st["paths"]} paths)')
        if r['ok'] == 0 and not r['bad']:
            rep.harness_error(f'first step {r["first"]}: no path completed (vacuous)')
        seen = set()
        for b in r['bad']:
            kinds = '>'.join(t[0] for t in b['log'])
            what = b['error'].split(': ', 2)[-1]
            short = what.split(': ')[-1]
            key = f'C06|{kinds}|{short}'
            if key in seen:
                continue
            seen.add(key)
            rep.violation(key, f'history {kinds}: {b["error"]} with {b["witness"]}',
                          dict(first=b['first'], n_steps=b['n_steps'], kinds=b['kinds'], second=b['second'], picks=b['picks'],
                               witness=b['witness'], log=b['log'], error=b['error']))
    rep.coverage = dict(
        states=paths, transitions=trans, traces_validated_against_impl=0, samples=samples[:4],
        witness_rule_cases=witness_cases,
        bounds=dict(history_length=f'{n_steps} steps with one-constant sentences, {n_steps - 1} with two-constant sentences',
                    constants_per_sentence='<=2',
                    thorough_exception='after two constant-bearing steps (const2>const2, const1>const2, '
                                       'const2>const1) the third step is a world, an access node or a copy',
                    index='0..3', subscript='>=0 (unbounded)', worlds='>=0 (unbounded)',
                    copies='any step may copy any live branch'),
        solver=dict(queries=queries, solver_time_s=round(st_time, 2)),
        functions_executed=['proof.common.Branch.append/copy/new_constant/new_world/constants/worlds',
                            'lang.lex.Constant.__new__/next, Lexical.orderitems (on symbolic coordinates)'],
        stubs=['lexical __hash__ replaced by the type rank (hash abstraction, engine/lexsym.py)'],
        file_hashes=file_hashes(FILES), exhaustive=not rep.inconclusive,
        rule='paths = order/equality types of the symbolic constants and worlds x step kinds x branch picks')
    rep.assumptions = ['constants: 0 <= index <= 3, subscript >= 0; worlds >= 0',
                       'equal lexical items hash equal (property C14) -- needed by the hash abstraction']
    return rep


def replay(data):
    'Concrete re-run of the history with the witness coordinates; plain ints.'
    if data.get('kind') == 'witness':
        r = witness_unit(data['logic'])
        hit = [b for b in r['bad'] if b['rule'] == data['rule']]
        return bool(hit), f'{data["logic"]} {data["rule"]}: {hit[:1]}'
    fn = harness([data['first']], data['n_steps'], tuple(data.get('kinds', KINDS)), data.get('second'))
    drv = ReplayDriver(data['picks'], data['witness'])
    try:
        fn(drv)
    except NotFresh as e:
        return True, f'history {data["log"]} with {data["witness"]}: {e}'
    except Exception as e:  # noqa: BLE001
        return True, f'history {data["log"]}: {type(e).__name__}: {e}'
    return False, f'history {data["log"]} with {data["witness"]}: fresh'
