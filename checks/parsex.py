"""Product exploration of the real parsers and the reference parsers on a
symbolic input string (shared by C12 and C13).

For one notation and one length n the input is a `SymStr` of n `SymChar`s
over a stated alphabet.  On every path the *real* parser (the real
`DefaultParser.__call__` with a real `ParseContext`; for standard notation
the six-line retry-with-parentheses wrapper of `StandardParser.__call__` is
mirrored by the harness, because it formats the input into a new `str`) and
the reference parser of spec/refparse.py read the same symbolic string; a
character is fixed (n-ary pick) when either of them looks at it.  Every path
is afterwards validated against the *complete* real entry point
`Parser(notation)(text)` on its concrete witness string.
"""
from __future__ import annotations

import z3

from engine import lexsym
from engine.pysymex import Explorer
from engine.symstr import SymChar, SymStr
from spec import refparse
from spec import walker as W

ALPHABETS = {
    # reduced alphabets: every symbol class, two members of the large classes,
    # digits 0,1,9, whitespace, one foreign character
    ('polish', 'reduced'): list('NKUMSVJIxymnFGab 019#'),
    ('standard', 'reduced'): list('~&$PXL=!xyabFGAB() 01#'),
    # tiny alphabets for deep inputs (one binary and one unary operator, a quantifier, a variable,
    # two predicates, a constant)
    ('polish', 'tiny'): list('KNVxFGm'),
    ('standard', 'tiny'): list('&LxFGa'),
    ('polish', 'full'): list('TNKACEUBMLSVJIxyzvmnosFGHOabcde 0123456789#'),
    ('standard', 'full'): list('*~&V><$%PNXL!=xyzvabcdFGHOABCDE() 0123456789#'),
}


class Finding(Exception):
    def __init__(self, kind, msg):
        super().__init__(msg)
        self.kind = kind


def closed_wellformed(ident, store):
    """every variable occurrence bound by exactly one enclosing quantifier,
    each quantifier's variable occurs in its scope, predicates at their arity"""
    def walk(t, bound):
        kind, spec = t
        if kind == 'Atomic':
            return set()
        if kind == 'Predicated':
            pred, params = spec
            if len(params) != pred[2]:
                raise Finding('wellformed', f'predicate {pred} applied to {len(params)} parameters')
            if pred[0] >= 0:
                ar = store.get((pred[0], pred[1]))
                if ar is not None and ar != pred[2]:
                    raise Finding('wellformed', f'predicate {pred} used with arity {pred[2]}, declared {ar}')
            used = set()
            for p in params:
                if p[0] == 'Variable':
                    if p[1] not in bound:
                        raise Finding('wellformed', f'free variable {p[1]} in a returned sentence')
                    used.add(p[1])
            return used
        if kind == 'Quantified':
            q, v, body = spec
            if v in bound:
                raise Finding('wellformed', f'variable {v} re-bound in a returned sentence')
            used = walk(body, bound | {v})
            if v not in used:
                raise Finding('wellformed', f'vacuous quantifier over {v} in a returned sentence')
            return used - {v}
        used = set()
        for x in spec[1]:
            used |= walk(x, bound)
        return used
    left = walk(ident, frozenset())
    if left:
        raise Finding('wellformed', f'free variables {left}')


def to_plain(ident):
    'ident tree of a real sentence -> plain nested tuples of ints/strs'
    if isinstance(ident, tuple):
        return tuple(to_plain(x) for x in ident)
    if isinstance(ident, str):
        return ident
    return int(ident)


def real_parse(parser, s, standard):
    from pytableaux.errors import ParseError
    from pytableaux.lang.parsing import DefaultParser
    try:
        return DefaultParser.__call__(parser, s)
    except ParseError:
        if not standard:
            raise
        wrapped = SymStr(['('] + list(s.chars) + [')'])
        try:
            return DefaultParser.__call__(parser, wrapped)
        except ParseError:
            pass
        raise


def make_fn(notation, n, alpha, store0, head=()):
    """store0: {(index, subscript): arity} initial predicate declarations."""
    from pytableaux.errors import ParseError
    from pytableaux.lang import Parser, Predicates
    standard = notation == 'standard'

    def fn():
        lexsym.reset_cache()
        preds = Predicates([(i, s_, a) for (i, s_), a in store0.items()])
        parser = Parser(notation, preds)
        s = SymStr.fresh(n, alpha, head=head)
        from engine.pysymex import current
        current().note('input', s)
        try:
            x = real_parse(parser, s, standard)
            real = ('sentence', to_plain(x.ident), x)
        except ParseError as e:
            real = ('reject', type(e).__name__, None)
        except RecursionError:
            raise
        except Exception as e:  # noqa: BLE001
            raise Finding('totality', f'parser raised {type(e).__name__}: {e}')
        store = dict(store0)
        try:
            ref = ('sentence', refparse.parse(notation, s, store))
        except refparse.Reject as e:
            ref = ('reject', str(e))
        if real[0] != ref[0]:
            raise Finding('agreement',
                          f'real parser: {real[0]} ({real[1]}); reference: {ref[0]} ({ref[1]})')
        if real[0] == 'sentence':
            if real[1] != ref[1]:
                raise Finding('denotation', f'real parser returned {real[1]}, reference {ref[1]}')
            after = {(p.index, p.subscript): p.arity for p in parser.predicates}
            closed_wellformed(real[1], after)
        return (real[0], real[1], s.witness(alpha[0]), s.read_mask())
    return fn


def explore(notation, n, alpha, store0, head=(), budget=600, max_paths=3_000_000):
    ex = Explorer([], max_paths=max_paths, max_seconds=budget)
    paths = ex.run(make_fn(notation, n, alpha, store0, head))
    return ex, paths


def concrete_outcome(notation, text, store0):
    'the complete real entry point on a concrete string, fresh parser'
    from pytableaux.errors import ParseError
    from pytableaux.lang import Parser, Predicates
    lexsym.reset_cache()
    parser = Parser(notation, Predicates([(i, s_, a) for (i, s_), a in store0.items()]))
    try:
        x = parser(text)
        return ('sentence', to_plain(x.ident))
    except ParseError as e:
        return ('reject', type(e).__name__)
    except Exception as e:  # noqa: BLE001
        return ('crash', f'{type(e).__name__}: {e}')


def history_outcome(notation, text, store0, earlier):
    """same string, same declarations, on a parser that parsed `earlier`
    strings before (its store is put back to the declarations afterwards)"""
    from pytableaux.errors import ParseError
    from pytableaux.lang import Parser, Predicates
    lexsym.reset_cache()
    decl = [(i, s_, a) for (i, s_), a in store0.items()]
    parser = Parser(notation, Predicates(decl))
    for e in earlier:
        try:
            parser(e)
        except Exception:  # noqa: BLE001
            pass
    parser.predicates.clear()
    parser.predicates.update(decl)
    try:
        x = parser(text)
        return ('sentence', to_plain(x.ident))
    except ParseError as e:
        return ('reject', type(e).__name__)
    except Exception as e:  # noqa: BLE001
        return ('crash', f'{type(e).__name__}: {e}')


def redeclared_outcome(notation, text, store0):
    """same string, same declarations, on a parser whose store reached these
    declarations by in-place redeclaration: every symbol was first declared
    with another arity and then assigned by index (`store[i] = Predicate(...)`);
    an extra predicate was declared and deleted by index."""
    from pytableaux.errors import ParseError
    from pytableaux.lang import Parser, Predicate, Predicates
    lexsym.reset_cache()
    decl = [(i, s_, a) for (i, s_), a in store0.items()]
    parser = Parser(notation, Predicates([(i, s_, a + 1) for i, s_, a in decl] + [(3, 7, 1)]))
    store = parser.predicates
    for k, d in enumerate(decl):
        store[k] = Predicate(d)
    del store[len(decl)]
    if [(p.index, p.subscript, p.arity) for p in store] != decl:
        return ('crash', f'store after redeclaration: {list(store)}')
    try:
        x = parser(text)
        return ('sentence', to_plain(x.ident))
    except ParseError as e:
        return ('reject', type(e).__name__)
    except Exception as e:  # noqa: BLE001
        return ('crash', f'{type(e).__name__}: {e}')


def blank_variants(text):
    'the string with one blank, and with two blanks, inserted at every inner position, and at all at once'
    out = []
    for i in range(1, len(text)):
        out.append(text[:i] + ' ' + text[i:])
        out.append(text[:i] + '  ' + text[i:])
    if len(text) > 1:
        out.append(' '.join(text))
        out.append(' ' + text + ' ')
    return list(dict.fromkeys(out))


def reference_outcome(notation, text, store0):
    store = dict(store0)
    try:
        return ('sentence', refparse.parse(notation, text, store))
    except refparse.Reject as e:
        return ('reject', str(e))


def whitespace_differential(notation, text, store0):
    """For an accepted input: every blank-insertion variant is parsed by the
    complete real entry point and by the reference parser; returns the list of
    (variant, real, reference) that differ in accept/reject or in the sentence."""
    bad = []
    for v in blank_variants(text):
        real = concrete_outcome(notation, v, store0)
        ref = reference_outcome(notation, v, store0)
        if real[0] != ref[0] or (real[0] == 'sentence' and real[1] != ref[1]):
            bad.append((v, real, ref))
    return bad
