"""C08 -- model evaluation is compositional and frame-correct.

pysymex runs the real `Model` of every logic: frames are filled *directly*
with symbolic truth values (`SymVal`: z3 integer index into the logic's
values) for letters, predications over <= 3 constants and uninterpreted
sentences at <= 2 worlds (the frame alone on 3 / 4); the initial access pairs are symbolic
booleans; then the real `finish()` and the real `value_of` run.  Per path z3
decides  result == documented recursion  where the documented recursion is the
term engine/semz3.Interp builds from the logic's own truth tables ("impl"),
the documented generalised disjunction / conjunction of the logic for
quantifiers and modal operators, and the model's own finished access relation.
The finished access relation itself is compared with the closure the frame
condition requires for every initial relation; the classical identity /
existence completion is explored over insertion orders; `minfloor`, `maxceil`
run on symbolic integer lists.
"""
from __future__ import annotations

import itertools
import multiprocessing as mp

import z3

from engine import lexsym
from engine.main import Report, file_hashes
from engine.pysymex import (Explorer, ReplayDriver, SymBool, SymDriver, SymInt,
                            model_values)
from engine.semz3 import Interp, LogicSem
from engine.symval import SymVal, term_of
from spec import tables as spec

FILES = ['pytableaux/models/__init__.py', 'pytableaux/logics/cpl.py', 'pytableaux/logics/k3wq.py',
         'pytableaux/logics/kk3wq.py', 'pytableaux/logics/mh.py', 'pytableaux/logics/nh.py',
         'pytableaux/logics/go.py', 'pytableaux/logics/s4go.py', 'pytableaux/tools/__init__.py']


class Bad(Exception):
    pass


def lang():
    from pytableaux.lang import (Atomic, Constant, Operator, Predicate, Quantifier,
                                 Variable)
    A, B = Atomic(0, 0), Atomic(1, 0)
    F = Predicate(0, 0, 1)
    R2 = Predicate(0, 1, 2)
    cs = [Constant(i, 0) for i in range(3)]
    x, y = Variable(0, 0), Variable(1, 0)
    return A, B, F, R2, cs, x, y, Operator, Quantifier, Predicate


def sentence_shapes(logic, thorough):
    A, B, F, R2, cs, x, y, O, Q, P = lang()
    M = logic.Meta
    out = {}
    for op in O:
        if op.name in ('Possibility', 'Necessity'):
            continue
        out[op.name] = op(A) if op.arity == 1 else op(A, B)
    out['~(A&B)'] = ~(A & B)
    out['(A$B)vA'] = O.Conditional(A, B) | A
    out['*~A'] = O.Assertion(~A)
    out['A%~A'] = O.Biconditional(A, ~A)
    if M.quantified:
        out['ExFx'] = Q.Existential(x, F(x))
        out['AxFx'] = Q.Universal(x, F(x))
        out['Ex(Fx&A)'] = Q.Existential(x, F(x) & A)
        out['Ax~Fx'] = Q.Universal(x, ~F(x))
        out['~ExFx'] = ~Q.Existential(x, F(x))
        out['Fa'] = F(cs[0])
        if thorough:
            out['ExAyRxy'] = Q.Existential(x, Q.Universal(y, R2((x, y))))
            out['Ax(FxvEyRxy)'] = Q.Universal(x, F(x) | Q.Existential(y, R2((x, y))))
    else:
        out['opaque ExFx'] = Q.Existential(x, F(x))
        out['~opaque'] = ~Q.Existential(x, F(x))
    if M.modal:
        out['MA'] = O.Possibility(A)
        out['LA'] = O.Necessity(A)
        out['ML A'] = O.Possibility(O.Necessity(A))
        out['L(AvB)'] = O.Necessity(A | B)
        out['~MA'] = ~O.Possibility(A)
        if M.quantified:
            out['MExFx'] = O.Possibility(Q.Existential(x, F(x)))
            out['AxLFx'] = Q.Universal(x, O.Necessity(F(x)))
    else:
        out['opaque MA'] = O.Possibility(A)
        out['opaque MA & A'] = O.Possibility(A) & A
    return out


def build_model(logic, S, I, s, W, K, drv_symbolic=True):
    """Real model with symbolic content for everything `s` can look at."""
    A, B, F, R2, cs, x, y, O, Q, P = lang()
    m = logic.Model()
    members = S.values
    modal = S.modal
    worlds = list(range(W if modal else 1))
    for w in worlds:
        # only the frame: registering the world in R is the job of finish()
        m.frames[w]
    consts = cs[:K]
    if s.predicates or s.quantifiers:
        m.constants.update(consts)
    for w in worlds:
        fr = m.frames[w]
        for a in s.atomics:
            fr.atomics[a] = SymVal(I._val(('A', a.spec, w)), members)
        for p in s.predicates:
            interp = fr.predicates[p]
            for tup in itertools.product(range(K), repeat=p.arity):
                interp.mapping[tuple(consts[i] for i in tup)] = SymVal(
                    I._val(('P', p.spec, tup, w)), members)
        # uninterpreted sub-sentences
        for sub in subsentences(s):
            if m.is_sentence_opaque(sub):
                fr.opaques[sub] = SymVal(I._val(('O', sub.ident, w)), members)
    m.sentences.add(s)
    return m, worlds, consts


def subsentences(s):
    out = [s]
    t = type(s).__name__
    if t == 'Operated':
        for x_ in s.operands:
            out += subsentences(x_)
    elif t == 'Quantified':
        out += subsentences(s.sentence)
    return out


def value_fn(logic, S, I, sname, s, W, K):
    """One path: symbolic model, real finish(), real value_of at world 0."""
    modal = S.modal
    m, worlds, consts = build_model(logic, S, I, s, W, K)
    init = []
    if modal:
        for i in worlds:
            for j in worlds:
                if W >= 4 and i == j:
                    continue
                if bool(SymBool(z3.Bool(f'Rinit_{i}_{j}'))):
                    m.R.add((i, j))
                    init.append((i, j))
    m.finish()
    final = sorted((i, j) for i in m.R for j in m.R[i])
    fworlds = sorted(set(m.R) | set(m.frames))
    kw = {'world': 0} if modal else {}
    v = m.value_of(s, **kw)
    return dict(value=v, init=init, final=final, worlds=fworlds)


def serial_ok(init, got, worlds):
    '''The serial closure is not unique.  Required: every world of the finished model has a
    successor, the given pairs are kept, and pairs are added only from worlds that had no
    successor (nothing is added where the relation was serial already).'''
    init = {tuple(p) for p in init}
    got = {tuple(p) for p in got}
    if not init <= got:
        return False
    if not all(any((w, v) in got for v in worlds) for w in worlds):
        return False
    return all(not any(c[0] == u for c in init) for (u, v) in got - init)


def check_value_paths(ex, paths, S, s, W, K, flavour_fix):
    """Post-run: per path, z3 decides result == oracle term."""
    bad = []
    info = S.info
    for p in paths:
        if p.kind != 'ok':
            bad.append((p, f'{type(p.value).__name__}: {p.value}', None))
            continue
        r = p.value
        fworlds = r['worlds']
        # frame correctness of the finished relation
        if S.modal:
            frame = info['frame']
            base = set(range(W))
            got = set(r['final'])
            if frame == 'serial':
                ok = serial_ok(r['init'], got, fworlds)
                if not ok:
                    bad.append((p, f'serial closure wrong: init {r["init"]} -> {sorted(got)}', None))
                    continue
            else:
                want = spec.closure(frame, base, r['init'])
                if got != want or set(fworlds) != base:
                    bad.append((p, f'access after finish {sorted(got)} != required closure '
                                   f'{sorted(want)} of {r["init"]}', None))
                    continue
        # evaluation
        nW = len(fworlds) if S.modal else 1
        I2 = Interp(S, 'impl', W=nW, K=K)
        I2.vars.update({k: v for k, v in ex._interp_vars.items()})
        I2.info = dict(info)
        if flavour_fix:
            I2.info['quant'] = flavour_fix.get(info['quant'], info['quant'])
            I2.info['modal_flavour'] = flavour_fix.get(info['modal_flavour'], info['modal_flavour'])
        A, B, F, R2, cs, x, y, O, Q, P = lang()
        for i, c in enumerate(cs[:K]):
            I2.vars[('den', c.spec)] = z3.IntVal(i) if K > 1 else 0
        term = I2.value(s, 0)
        subs = []
        for i in range(nW):
            for j in range(nW):
                subs.append((I2.Rc(i, j), z3.BoolVal((i, j) in set(r['final']))))
        extra = []
        un = S.idx[S.impl_unassigned]
        for key, var in I2.vars.items():
            if key[0] in ('A', 'P', 'O') and isinstance(key[-1], int) and key[-1] >= (W if S.modal else 1):
                extra.append(var == un)
        term = z3.substitute(term, *subs) if subs else term
        got = term_of(r['value'], S.values)
        s_ = z3.Solver()
        s_.add(*ex.preconds)
        s_.add(*[c for c in I2.cons if not _mentions_R(c)])
        s_.add(*p.pc)
        s_.add(*extra)
        s_.add(got != term)
        ex.queries += 1
        res = s_.check()
        ex.query_results[str(res)] += 1
        if res == z3.sat:
            bad.append((p, 'value_of differs from the documented recursion', s_.model()))
        elif res != z3.unsat:
            ex.exhausted = False
    return bad


def _mentions_R(c):
    return 'R_' in str(c)


def value_unit(arg):
    name, thorough, budget = arg[:3]
    chunk, nchunks = (arg[3], arg[4]) if len(arg) > 3 else (0, 1)
    from pytableaux.logics import registry
    registry.import_all()
    logic = registry(name)
    S = LogicSem(name)
    out = dict(logic=name, paths=0, decisions=0, queries=0, solver_time=0.0, bad=[], inexhausted=[],
               samples=[], shapes=0)
    # two worlds in both tiers: three worlds x |values|^(letters x worlds) x 2^9 access relations does
    # not exhaust for the many-valued logics (measured); the frame alone is explored on more worlds
    W = 2 if S.modal else 1
    # documented quantifier semantics of the FDE family is min/max in the
    # linear order (doc/logics/include/fde/m.existential.rst); the lattice
    # reading is the C07 finding and must not be double-counted here
    flavour_fix = {'lattice': 'std'}
    shapes = [(sname, s, W) for sname, s in sentence_shapes(logic, thorough).items()]
    if S.modal:
        # the frame alone on one more world: fork / join shaped initial relations need three
        # worlds (quick), chains of three steps need four (thorough)
        A0 = lang()[0]
        shapes.append((f'frame-only W={4 if thorough else 3}', A0, 4 if thorough else 3))
    for sname, s, W in shapes[chunk::nchunks]:
        K = 1
        if s.predicates or s.quantifiers:
            K = 3 if thorough else 2
            if S.info['classical'] and len(s.quantifiers) and not thorough:
                K = 2
            if thorough and S.modal:
                # three worlds x three constants x |values| does not exhaust within any budget tried:
                # shapes with predicates keep the quick tier's two worlds and two constants in the
                # modal logics (three constants in the non-modal ones)
                W, K = min(W, 2), 2
        I = Interp(S, 'impl', W=W + 1 if S.info['frame'] == 'serial' else W, K=K)
        def fn():
            return value_fn(logic, S, I, sname, s, W, K)
        # create the symbolic values once, so that their domain constraints
        # exist as preconditions before the exploration starts
        build_model(logic, S, I, s, W, K)
        ex = Explorer([c for c in I.cons if not _mentions_R(c)], max_paths=60000, max_seconds=budget)
        paths = ex.run(fn)
        ex._interp_vars = dict(I.vars)
        bad = check_value_paths(ex, paths, S, s, W, K, flavour_fix)
        st = ex.stats()
        out['shapes'] += 1
        out['paths'] += st['paths']
        out['decisions'] += st['decisions']
        out['queries'] += st['queries']
        out['solver_time'] += st['solver_time_s']
        if not ex.exhausted:
            out['inexhausted'].append(sname)
        for p, msg, model in bad[:3]:
            wit = model_values(model if model is not None else ex.witness(p))
            out['bad'].append(dict(shape=sname, error=msg, witness=_readable(wit, S), W=W, K=K,
                                   init=p.value['init'] if p.kind == 'ok' else None))
        if paths and len(out['samples']) < 2:
            p = paths[len(paths) // 2]
            out['samples'].append(dict(logic=name, sentence=sname, W=W, K=K,
                                       path_condition=[str(c) for c in p.pc[:8]],
                                       result=str(p.value.get('value') if p.kind == 'ok' else p.value)))
    return out


def _readable(wit, S):
    out = {}
    for k, v in wit.items():
        if isinstance(v, bool):
            out[k] = v
        elif isinstance(v, int) and 0 <= v < S.n and (k.startswith('(') or k.startswith("('")):
            out[k] = S.names[v]
        else:
            out[k] = v
    return out


# ---------------------------------------------------------------------------
# classical identity / existence completion: concrete values, symbolic order
# ---------------------------------------------------------------------------

def identity_fn(drv, name, n_sets):
    from pytableaux.logics import registry
    logic = registry(name)
    A, B, F, R2, cs, x, y, O, Q, P = lang()
    a, b, c = cs
    modal = bool(logic.Meta.modal)
    facts = [(P.Identity((a, b)), 'T'), (P.Identity((b, c)), 'T'), (F(a), 'T'), (F(c), 'F'),
             (R2((a, c)), 'T'), (P.Identity((c, a)), 'T'), (F(b), 'T'), (P.Identity((b, a)), 'T')]
    m = logic.Model()
    chosen = []
    log = []
    drv.note('log', log)
    for i in range(n_sets):
        k = drv.pick(len(facts), f'fact{i}')
        s, v = facts[k]
        w = drv.pick(2, f'w{i}') if modal else 0
        kw = {'world': w} if modal else {}
        try:
            m.set_value(s, v, **kw)
            chosen.append((s, v, w))
            log.append((str(s), v, w))
        except Exception as e:  # noqa: BLE001
            if type(e).__name__ != 'ModelValueError':
                raise Bad(f'set_value({s}, {v}) raised {type(e).__name__}: {e}')
            log.append((str(s), v, w, 'rejected'))
    try:
        m.finish()
    except Exception as e:  # noqa: BLE001
        if type(e).__name__ == 'ModelValueError':
            # the facts are jointly inconsistent with identity (e.g. Fa, a=c, not Fc)
            return 'inconsistent'
        raise Bad(f'finish() raised {type(e).__name__}: {e}')
    worlds = sorted(m.frames)
    consts = sorted(m.constants)
    failed = set()
    for w in worlds:
        kw = {'world': w} if modal else {}

        def val(s_):
            return str(m.value_of(s_, **kw))
        for p in consts:
            if val(P.Identity((p, p))) != 'T':
                failed.add('identity not reflexive')
            if val(P.Existence(p)) != 'T':
                failed.add('existence not universal')
            for q in consts:
                if val(P.Identity((p, q))) == 'T':
                    if val(P.Identity((q, p))) != 'T':
                        failed.add('identity not symmetric')
                    for r in consts:
                        if val(P.Identity((q, r))) == 'T' and val(P.Identity((p, r))) != 'T':
                            failed.add('identity not transitive')
                    if val(F(p)) == 'T' and val(F(q)) != 'T':
                        failed.add('extension of a monadic predicate does not respect identity')
                    for r in consts:
                        if val(R2((p, r))) == 'T' and val(R2((q, r))) != 'T':
                            failed.add('extension of a binary predicate does not respect identity (first place)')
                        if val(R2((r, p))) == 'T' and val(R2((r, q))) != 'T':
                            failed.add('extension of a binary predicate does not respect identity (second place)')
        for s, v, w2 in chosen:
            if w2 == w and val(s) != v:
                failed.add('a value set through the API was changed by finish()')
        # nothing beyond what the identities *of this world* require: the
        # equivalence closure of the identities set to T at w
        cls = {p: {p} for p in consts}
        for s, v, w2 in chosen:
            if w2 == w and v == 'T' and s.predicate == P.Identity:
                p, q = s.params
                merged = cls[p] | cls[q]
                for r in merged:
                    cls[r] = merged
        setT = {(s.predicate, tuple(s.params)) for s, v, w2 in chosen if w2 == w and v == 'T'}
        for p in consts:
            for q in consts:
                if val(P.Identity((p, q))) == 'T' and q not in cls[p]:
                    failed.add('identity holds between constants that nothing identifies at that world')
            if val(F(p)) == 'T' and not any((F, (r,)) in setT for r in cls[p]):
                failed.add('a monadic extension contains a constant that neither a set value nor an '
                           'identity of that world puts there')
            for q in consts:
                if val(R2((p, q))) == 'T' and not any((R2, (r1, r2)) in setT for r1 in cls[p] for r2 in cls[q]):
                    failed.add('a binary extension contains a pair that neither a set value nor an '
                               'identity of that world puts there')
    if failed:
        raise Bad(' ; '.join(sorted(failed)))
    return 'ok'


def identity_unit(arg):
    name, n_sets, budget = arg
    from pytableaux.logics import registry
    registry.import_all()
    drv = SymDriver()
    ex = Explorer([], max_paths=400000, max_seconds=budget)
    paths = ex.run(lambda: identity_fn(drv, name, n_sets))
    bad = []
    for p in paths:
        if p.kind != 'ok':
            bad.append(dict(error=f'{type(p.value).__name__}: {p.value}', picks=list(p.picks),
                            log=[list(map(str, t)) for t in p.notes.get('log', [])], n_sets=n_sets))
    uniq = {}
    for b in bad:
        uniq.setdefault(b['error'], b)
    bad = list(uniq.values())
    return dict(logic=name, stats=ex.stats(), bad=bad[:40], nbad=len(bad),
                sample=[list(map(str, t)) for t in (paths[len(paths) // 2].notes.get('log', []) if paths else [])])


# ---------------------------------------------------------------------------
# minfloor / maxceil on symbolic integer lists
# ---------------------------------------------------------------------------

def limit_fn(drv):
    from pytableaux.tools import maxceil, minfloor
    n = drv.pick(5, 'n')
    xs = [drv.int(f'x{i}') for i in range(n)]
    lim = drv.int('lim')
    which = drv.pick(2, 'which')
    f = (minfloor, maxceil)[which]
    better = (lambda a, b: a < b, lambda a, b: a > b)[which]
    if n == 0:
        r = f(lim, xs, 12345)
        if r != 12345:
            raise Bad('empty iterable does not return the default')
        return 'empty'
    r = f(lim, list(xs))
    # result is an element
    if not any(r is x_ for x_ in xs):
        raise Bad('result is not an element of the input')
    bounded = all(bool(x_ >= lim) if which == 0 else bool(x_ <= lim) for x_ in xs)
    if bounded:
        for x_ in xs:
            if bool(better(x_, r)):
                raise Bad(f'{f.__name__}: result is not the {"minimum" if which == 0 else "maximum"} '
                          'although the limit bounds the input')
    else:
        # an early return must be at or beyond the limit
        idx = [i for i, x_ in enumerate(xs) if r is x_][0]
        if idx < len(xs) - 1:
            full = True
            for x_ in xs:
                if bool(better(x_, r)):
                    full = False
            if not full and not (bool(r == lim) or bool(better(r, lim))):
                raise Bad('early return although the limit was not reached')
    return f.__name__


def crosshair_unit(budget):
    '''Second engine on the minfloor / maxceil kernel: CrossHair on xh/limit_best_contracts.py.'''
    import os
    import re
    import subprocess
    import sys
    import time
    from engine.main import REPO
    here = os.path.dirname(os.path.dirname(os.path.abspath(__file__)))
    exe = os.path.join(os.path.dirname(sys.executable), 'crosshair')
    out = dict(confirmed=0, refuted_twin=False, bad=[], inconclusive=[], available=os.path.exists(exe), seconds=0.0)
    if not out['available']:
        out['inconclusive'].append('crosshair is not installed in the check environment')
        return out
    env = dict(os.environ, PYTHONPATH=f'{REPO}{os.pathsep}{here}')
    t0 = time.time()
    r = subprocess.run([exe, 'check', '--report_all', '--per_condition_timeout', '30',
                        os.path.join(here, 'xh', 'limit_best_contracts.py')],
                       env=env, capture_output=True, text=True, timeout=max(120, budget))
    out['seconds'] = round(time.time() - t0, 1)
    for line in (r.stdout + r.stderr).splitlines():
        m = re.match(r'.*?:(\d+): (info|error): (.*)$', line)
        if not m:
            continue
        kind, msg = m.group(2), m.group(3)
        if kind == 'info' and msg.startswith('Confirmed over all paths'):
            out['confirmed'] += 1
        elif kind == 'error' and '_reach_' in msg:
            out['refuted_twin'] = True
        elif kind == 'error':
            call = re.search(r'when calling (\w+\(.*\))(?: \(which|$)', msg)
            out['bad'].append(dict(message=msg, call=call.group(1) if call else None))
        else:
            out['inconclusive'].append(f'line {m.group(1)}: {msg}')
    return out


def crosshair_replay(call):
    'evaluate the reported call on the real function and re-check the postconditions in plain Python'
    import inspect
    import re
    from xh import limit_best_contracts as M
    m = re.match(r'(\w+)\((.*)\)$', call)
    fn = getattr(M, m.group(1))
    args = eval('(' + m.group(2) + ',)', {})
    ret = fn(*args)
    env = dict(zip(inspect.signature(fn).parameters, args))
    env['__return__'] = ret
    posts = [ln.split('post:', 1)[1].strip() for ln in fn.__doc__.splitlines() if 'post:' in ln]
    failed = [p_ for p_ in posts if not eval(p_, {'min': min, 'max': max, 'all': all, 'len': len}, env)]
    return bool(failed), f'{call} returns {ret!r}; failed postconditions: {failed}'


def limit_unit(arg):
    budget = arg
    drv = SymDriver()
    ex = Explorer([], max_paths=400000, max_seconds=budget)
    paths = ex.run(lambda: limit_fn(drv))
    bad = []
    for p in paths:
        if p.kind != 'ok':
            bad.append(dict(error=f'{type(p.value).__name__}: {p.value}', picks=list(p.picks),
                            witness=model_values(ex.witness(p))))
    return dict(stats=ex.stats(), bad=bad[:5], nbad=len(bad))


def run(ctx):
    from pytableaux.logics import registry
    registry.import_all()
    rep = Report('C08', 'model_checking')
    thorough = not ctx.quick
    names = sorted(registry(n).Meta.name for n in registry.all())
    budget = 400 if ctx.quick else 420
    classical = [n for n in names if spec.logic_info(n)['classical']]
    with mp.Pool(ctx.jobs) as pool:
        ar_lim = pool.apply_async(limit_unit, (budget,))
        ar_xh = pool.apply_async(crosshair_unit, (budget,))
        ar_id = [pool.apply_async(identity_unit, ((n, 3 if ctx.quick else 4, budget * 2),))
                 for n in (classical if thorough else ['CPL', 'CFOL', 'K', 'S5'])]
        # the sentence shapes of one logic are spread over several units (a slow logic must not
        # become the tail of the run)
        nch = 6 if thorough else 2
        results = pool.map(value_unit, [(n, thorough, budget, k, nch) for n in names for k in range(nch)],
                           chunksize=1)
        lim = ar_lim.get()
        xh = ar_xh.get()
        ids = [a.get() for a in ar_id]
    paths = trans = queries = shapes = 0
    st_time = 0.0
    samples = []
    for r in results:
        paths += r['paths']
        trans += r['decisions']
        queries += r['queries']
        st_time += r['solver_time']
        shapes += r['shapes']
        samples += r['samples'][:1]
        for sname in r['inexhausted']:
            rep.inconclusive.append(f'{r["logic"]} {sname}: not exhausted')
        seen = set()
        for b in r['bad']:
            key = f'C08|{r["logic"]}|{b["shape"]}|{b["error"][:60]}'
            if key in seen:
                continue
            seen.add(key)
            rep.violation(key, f'{r["logic"]} {b["shape"]}: {b["error"]} with {b["witness"]} '
                               f'(initial access {b["init"]})',
                          dict(kind='value', logic=r['logic'], shape=b['shape'], witness=b['witness'],
                               W=b['W'], K=b['K'], init=b['init'], thorough=thorough, error=b['error']))
    for r in ids:
        st = r['stats']
        paths += st['paths']
        trans += st['decisions'] + st['picks']
        if not st['exhausted']:
            rep.inconclusive.append(f'{r["logic"]} identity completion: not exhausted')
        aspects = {}
        for b in r['bad']:
            msg = b['error'].split(': ', 1)[-1]
            for aspect in msg.split(' ; '):
                aspects.setdefault(aspect, b)
        for aspect, b in aspects.items():
            rep.violation(f'C08|{r["logic"]}|identity|{aspect}',
                          f'{r["logic"]}: after {b["log"]}: {aspect}',
                          dict(kind='identity', logic=r['logic'], picks=b['picks'], n_sets=b['n_sets'],
                               aspect=aspect, error=b['error']))
    st = lim['stats']
    paths += st['paths']
    trans += st['decisions'] + st['picks']
    queries += st['queries']
    if not st['exhausted']:
        rep.inconclusive.append('minfloor/maxceil: not exhausted')
    for b in lim['bad'][:2]:
        rep.violation(f'C08|limit_best|{b["error"][:70]}', f'{b["error"]} with {b["witness"]}',
                      dict(kind='limit', picks=b['picks'], witness=b['witness'], error=b['error']))
    for b in xh['bad'][:3]:
        rep.violation(f'C08|limit_best|crosshair|{(b["call"] or b["message"])[:60]}',
                      f'CrossHair: {b["message"]}', dict(kind='crosshair', call=b['call'], message=b['message']))
    for msg in xh['inconclusive']:
        rep.inconclusive.append(f'minfloor/maxceil (CrossHair): {msg}')
    if xh['available'] and not xh['inconclusive'] and not xh['refuted_twin']:
        rep.harness_error('CrossHair did not refute the reachability twin _reach_minfloor (vacuous contracts?)')
    rep.coverage = dict(
        states=paths, transitions=trans, traces_validated_against_impl=0, samples=samples[:5],
        second_engine=dict(tool='crosshair-tool', file='xh/limit_best_contracts.py',
                           conditions_confirmed_over_all_paths=xh['confirmed'],
                           reachability_twin_refuted=xh['refuted_twin'], seconds=xh['seconds'],
                           bounds='lists of 1..4 integers, arbitrary limit; per-condition timeout 30 s'),
        sentence_shapes=shapes, identity_sample=ids[0]['sample'] if ids else None,
        bounds=dict(worlds=2, constants='2; thorough: 3 in the non-modal logics', depth=2,
                    frame_only=f'every initial relation on {4 if thorough else 3} worlds'
                               + (' (irreflexive pairs symbolic)' if thorough else ''),
                    identity='3 (quick) / 4 set_value calls from 8 facts about a, b, c, any order, 2 worlds',
                    limit_best='integer lists of length <= 4, arbitrary limit'),
        solver=dict(queries=queries, solver_time_s=round(st_time, 2)),
        functions_executed=['BaseModel.value_of/value_of_operated/value_of_quantified/_unmodal_values/'
                            '_unquantify_values', 'per-logic overrides (K3WQ, KK3WQ, MH, NH, GO, S4GO)',
                            'TruthFunction.* on symbolic values', 'BaseModel.finish/_complete_frames',
                            'Access.enforce (Serial/Reflexive/ReflexiveTransitive/Global)',
                            'cpl.Model.finish/_agument_extension_with_identicals',
                            'tools.minfloor/maxceil/_limit_best'],
        stubs=['symbolic truth values are placed into frames directly (setters compare with `is`)'],
        file_hashes=file_hashes(FILES), exhaustive=not rep.inconclusive,
        rule='paths = value classes distinguished by the real evaluator x initial access relations')
    rep.assumptions = [
        'documented recursion: operators by the logic\'s own tables (table correctness is C07), quantifiers '
        'and modal operators by spec.generalize with the logic\'s flavour (FDE family: min/max as documented)',
        'a quantifier ranges over the model\'s constants']
    return rep


def replay(data):
    """Concrete model with the witness values, real finish()/value_of, and the
    plain-Python reference evaluator fed with the implementation's tables."""
    from pytableaux.logics import registry
    registry.import_all()
    kind = data['kind']
    if kind == 'crosshair':
        if not data.get('call'):
            return False, 'no call to replay'
        return crosshair_replay(data['call'])
    if kind == 'limit':
        drv = ReplayDriver(data['picks'], data['witness'])
        try:
            limit_fn(drv)
        except Bad as e:
            return True, f'{e} with {data["witness"]}'
        return False, 'holds'
    if kind == 'identity':
        drv = ReplayDriver(data['picks'], {})
        try:
            identity_fn(drv, data['logic'], data['n_sets'])
        except Bad as e:
            hit = data.get('aspect') is None or data['aspect'] in str(e)
            return hit, f'{data["logic"]}: {e}'
        return False, 'holds'
    logic = registry(data['logic'])
    S = LogicSem(data['logic'])
    W, K = data['W'], data['K']
    if data['shape'].startswith('frame-only'):
        s = lang()[0]
    else:
        s = sentence_shapes(logic, data.get('thorough', False))[data['shape']]
    wit = data['witness']
    A, B, F, R2, cs, x, y, O, Q, P = lang()
    m = logic.Model()
    worlds = list(range(W if S.modal else 1))
    vals = logic.Meta.values

    def get(key):
        v = wit.get(str(key))
        if v is None:
            return vals[S.impl_unassigned]
        return vals[v] if isinstance(v, str) else vals[S.names[int(v)]]
    for w in worlds:
        # as in build_model: only the frame; registering the world in R is the job of finish()
        m.frames[w]
    consts = cs[:K]
    if s.predicates or s.quantifiers:
        m.constants.update(consts)
    interp = dict(worlds=worlds, K=K, R=set(), den={tuple(c.spec): i for i, c in enumerate(consts)},
                  wden={}, A={}, P={}, O={})
    for w in worlds:
        fr = m.frames[w]
        for a_ in s.atomics:
            v = get(('A', a_.spec, w))
            fr.atomics[a_] = v
            interp['A'][(tuple(a_.spec), w)] = v.name
        for p_ in s.predicates:
            for tup in itertools.product(range(K), repeat=p_.arity):
                v = get(('P', p_.spec, tup, w))
                fr.predicates[p_].mapping[tuple(consts[i] for i in tup)] = v
                interp['P'][(tuple(p_.spec), tup, w)] = v.name
        for sub in subsentences(s):
            if m.is_sentence_opaque(sub):
                v = get(('O', sub.ident, w))
                fr.opaques[sub] = v
                interp['O'][(sub.ident, w)] = v.name
    for (i, j) in data.get('init') or ():
        m.R.add((i, j))
    m.sentences.add(s)
    try:
        m.finish()
        kw = {'world': 0} if S.modal else {}
        got = m.value_of(s, **kw).name
    except Exception as e:  # noqa: BLE001
        return True, f'{data["logic"]} {data["shape"]}: {type(e).__name__}: {e}'
    from spec.evaluator import Evaluator
    interp['R'] = {(i, j) for i in m.R for j in m.R[i]}
    frame = S.info['frame']
    if S.modal and frame != 'serial':
        want_R = spec.closure(frame, set(worlds), [tuple(x) for x in data.get('init') or ()])
        if interp['R'] != want_R:
            return True, (f'{data["logic"]}: access after finish {sorted(interp["R"])} != required closure '
                          f'{sorted(want_R)} of {data.get("init")}')
    elif S.modal:
        fw = sorted(set(m.R) | set(m.frames))
        if not serial_ok(data.get('init') or (), interp['R'], fw):
            return True, (f'{data["logic"]}: finished access {sorted(interp["R"])} is not a serial closure of '
                          f'{data.get("init")} over worlds {fw}')
    interp['worlds'] = sorted(set(m.R) | set(m.frames))
    tables = {op: {tuple(S.names[i] for i in k): S.names[v] for k, v in t.items()}
              for op, t in S.impl.items()}
    ev = Evaluator(data['logic'], interp, tables=tables)
    ev.un = S.impl_unassigned
    if ev.info['quant'] == 'lattice':
        ev.info = dict(ev.info, quant='std', modal_flavour='std' if ev.info['modal_flavour'] else None)
    want = ev.value(s, 0)
    return got != want, (f'{data["logic"]} {data["shape"]}: value_of = {got}, documented recursion = '
                         f'{want} (values {wit}, access {sorted(interp["R"])})')
