"""C18 -- ordered-set containers stay a set and a sequence at once.

pysymex runs the *real* `qset`, `linqset` and `Predicates` on symbolic
operation sequences: each operation's code and index operands are n-ary
symbolic picks, each value operand is a z3 integer `v_k` in a universe of U
values (so that "is this value already a member" is decided by the solver as
an equality between symbolic values, and every aliasing pattern of the
operands is a path).  A plain list-without-duplicates model runs alongside.
After every operation: iteration order, `len`, membership of every universe
value, `index` and `c[i]` must agree with the model; a single-element operation
that raised must have left the container unchanged; a bulk operation that
raised must still leave a consistent container.
"""
from __future__ import annotations

import multiprocessing as mp
import time

import z3

from engine.main import Report, file_hashes
from engine.pysymex import (Explorer, ReplayDriver, SymDriver, model_values)

FILES = ['pytableaux/tools/hybrids.py', 'pytableaux/tools/linked.py',
         'pytableaux/lang/collect.py']

SINGLE_OPS = ('append', 'add', 'insert', 'remove', 'discard', 'delidx', 'setidx',
              'pop', 'wedge')
BULK_OPS = ('delslice', 'setslice', 'sort', 'reverse', 'clear', 'copy', 'extend',
            'update', 'ior', 'iand', 'isub', 'ixor')
ALL_OPS = SINGLE_OPS + BULK_OPS


class Mismatch(Exception):
    pass


def meq(x, y):
    return bool(x == y)


def m_contains(m, v):
    for x in m:
        if meq(x, v):
            return True
    return False


def m_index(m, v):
    for i, x in enumerate(m):
        if meq(x, v):
            return i
    return -1


def dedupe(vals):
    out = []
    for v in vals:
        if not m_contains(out, v):
            out.append(v)
    return out


def pick_index(ex, L, label):
    'index operand in [-(L+1), L+1]'
    n = 2 * (L + 1) + 1
    return ex.pick(n, label) - (L + 1)


def consistent(c, U, what):
    lst = list(c)
    if len(lst) != len(c):
        raise Mismatch(f'{what}: len(c)={len(c)} but iteration yields {len(lst)} items')
    for i, x in enumerate(lst):
        for j in range(i):
            if meq(lst[j], x):
                raise Mismatch(f'{what}: duplicate element at positions {j},{i}')
        if not (x in c):
            raise Mismatch(f'{what}: element at {i} is iterated but "in" says no')
    return lst


def compare(c, m, U, what, ex=None, seen=None):
    lst = consistent(c, U, what)
    if len(lst) != len(m):
        raise Mismatch(f'{what}: length {len(lst)} != model {len(m)}')
    for i, (x, y) in enumerate(zip(lst, m)):
        if not meq(x, y):
            raise Mismatch(f'{what}: position {i} differs from the model')
        if not meq(c[i], y):
            raise Mismatch(f'{what}: c[{i}] differs from the model')
    for u in (seen or ()):
        inm = m_contains(m, u)
        if bool(u in c) != inm:
            raise Mismatch(f'{what}: membership of an operand value: container {not inm}, model {inm}')
        if inm:
            if c.index(u) != m_index(m, u):
                raise Mismatch(f'{what}: index(value) differs from the model')


def apply_op(kind, c, m, op, k, U, ex, log, seen, forced_nv=None):
    # ex: driver (SymDriver under exploration, ReplayDriver in replay)
    """Apply operation `op` (string) number k to container c and model m.
    Returns (c, m, snapshot) -- snapshot is (container, model copy) after a
    `copy` operation, else None."""
    L = len(m)
    v = ex.int(f'v{k}')
    w = ex.int(f'w{k}')
    if op not in ('pop', 'delidx', 'delslice', 'sort', 'reverse', 'clear', 'copy'):
        seen.append(v)
    if op == 'wedge':
        seen.append(w)
    should_raise = False
    bulk = op in BULK_OPS
    snap = None
    new_m = list(m)
    act = None
    if op == 'append' or op == 'add':
        dup = m_contains(m, v)
        if dup and op == 'append':
            should_raise = True
        elif not dup:
            new_m.append(v)
        act = (lambda: c.append(v)) if op == 'append' else (lambda: c.add(v))
        log.append((op, 'v'))
    elif op == 'insert':
        i = pick_index(ex, L, f'i{k}')
        if m_contains(m, v):
            should_raise = True
        else:
            new_m.insert(i, v)
        act = lambda: c.insert(i, v)
        log.append((op, i, 'v'))
    elif op == 'wedge':
        rel = (-1, 1)[ex.pick(2, f'rel{k}')]
        if not m_contains(m, w):
            should_raise = True
        elif m_contains(m, v):
            should_raise = True
        else:
            j = m_index(m, w)
            new_m.insert(j if rel == -1 else j + 1, v)
        act = lambda: c.wedge(v, w, rel)
        log.append((op, 'v', 'w', rel))
    elif op == 'remove' or op == 'discard':
        if m_contains(m, v):
            del new_m[m_index(m, v)]
        elif op == 'remove':
            should_raise = True
        act = (lambda: c.remove(v)) if op == 'remove' else (lambda: c.discard(v))
        log.append((op, 'v'))
    elif op == 'delidx':
        i = pick_index(ex, L, f'i{k}')
        if -L <= i < L:
            del new_m[i]
        else:
            should_raise = True

        def act():
            del c[i]
        log.append((op, i))
    elif op == 'setidx':
        i = pick_index(ex, L, f'i{k}')
        if -L <= i < L:
            if m_contains(m, v) and not meq(m[i], v):
                should_raise = True
            else:
                new_m[i] = v
        else:
            should_raise = True

        def act():
            c[i] = v
        log.append((op, i, 'v'))
    elif op == 'pop':
        if L:
            new_m.pop()
        else:
            should_raise = True
        act = lambda: c.pop()
        log.append((op,))
    elif op == 'delslice':
        i = ex.pick(L + 1, f'i{k}')
        j = i + ex.pick(3, f'n{k}')
        del new_m[i:j]

        def act():
            del c[i:j]
        log.append((op, i, j))
    elif op == 'setslice':
        i = ex.pick(L + 1, f'i{k}')
        j = i + ex.pick(3, f'n{k}')
        nv = ex.pick(3, f'nv{k}') if forced_nv is None else forced_nv
        vals = [v, w][:nv]
        if nv == 2:
            seen.append(w)
        size = len(range(*slice(i, j).indices(L)))
        trial = list(m)
        trial[i:j] = vals
        ok = size == nv     # the containers only accept size-preserving slice assignment
        for p_, x in enumerate(trial):
            for q_ in range(p_):
                if meq(trial[q_], x):
                    ok = False
        if ok:
            new_m = trial
        else:
            should_raise = True

        def act():
            c[i:j] = tuple(vals)
        log.append((op, i, j, ['v', 'w'][:nv]))
    elif op == 'sort':
        # insertion sort with symbolic comparisons
        out = []
        for x in m:
            pos = len(out)
            for q_, y in enumerate(out):
                if bool(x < y):
                    pos = q_
                    break
            out.insert(pos, x)
        new_m = out
        act = lambda: c.sort()
        log.append((op,))
    elif op == 'reverse':
        new_m.reverse()
        act = lambda: c.reverse()
        log.append((op,))
    elif op == 'clear':
        new_m = []
        act = lambda: c.clear()
        log.append((op,))
    elif op == 'copy':
        act = None
        log.append((op,))
    elif op in ('extend', 'update', 'ior', 'iand', 'isub', 'ixor'):
        nv = 1 + ex.pick(2, f'nv{k}')
        vals = [v, w][:nv]
        if nv == 2:
            seen.append(w)
        if op == 'extend':
            for x in vals:
                if m_contains(new_m, x):
                    should_raise = True
                    break
                new_m.append(x)
            act = lambda: c.extend(list(vals))
        elif op in ('update', 'ior'):
            for x in vals:
                if not m_contains(new_m, x):
                    new_m.append(x)
            if op == 'update':
                act = lambda: c.update(list(vals))
            else:
                def act():
                    nonlocal c
                    c |= list(vals)
        elif op == 'iand':
            new_m = [x for x in m if m_contains(vals, x)]

            def act():
                nonlocal c
                c &= list(vals)
        elif op == 'isub':
            new_m = [x for x in m if not m_contains(vals, x)]

            def act():
                nonlocal c
                c -= list(vals)
        else:
            for x in dedupe(vals):
                if m_contains(new_m, x):
                    del new_m[m_index(new_m, x)]
                else:
                    new_m.append(x)

            def act():
                nonlocal c
                c ^= list(vals)
        log.append((op, ['v', 'w'][:nv]))
    else:
        raise AssertionError(op)
    if op == 'copy':
        c2 = c.copy()
        compare(c2, m, U, f'op {k} copy', ex, seen)
        return c2, list(m), (c, list(m))
    raised = None
    try:
        act()
    except Exception as e:  # noqa: BLE001
        raised = e
    what = f'op {k} {log[-1]}'
    if raised is not None and not should_raise:
        raise Mismatch(f'{what}: raised {type(raised).__name__} but the model accepts the operation')
    if raised is None and should_raise:
        raise Mismatch(f'{what}: accepted but the model rejects it (duplicate / missing / out of range)')
    if raised is not None:
        if not bulk:
            compare(c, m, U, what + ' (raised, must be unchanged)', ex, seen)
            return c, m, None
        lst = consistent(c, U, what + ' (bulk raised)')
        return c, list(lst), None
    compare(c, new_m, U, what, ex, seen)
    return c, new_m, None


def harness(kind, first_ops, n_ops, U, init=0):
    """init: number of elements the container is constructed with (values
    a0, a1, symbolic, possibly equal); then 1..n_ops operations, the first of
    which is taken from `first_ops`."""
    from pytableaux.tools.hybrids import qset
    from pytableaux.tools.linked import linqset
    cls = dict(qset=qset, linqset=linqset)[kind]
    ops = [o for o in ALL_OPS if not (o == 'wedge' and kind != 'linqset')
           and not (o == 'sort' and kind == 'linqset')]

    def fn(ex=None):
        ex = ex or SymDriver()
        seen = [ex.int(f'a{i}') for i in range(init)]
        c = cls(list(seen))
        m = dedupe(seen)
        log = [('init', init)]
        snaps = []
        ex.note('log', log)
        compare(c, m, U, 'constructor', ex, seen)
        n = 1 + ex.pick(n_ops, 'len')
        for k in range(n):
            forced = None
            if k == 0:
                op = first_ops[ex.pick(len(first_ops), 'op0')]
                if ':' in op:
                    op, forced = op.split(':')
                    forced = int(forced)
            else:
                op = ops[ex.pick(len(ops), f'op{k}')]
            c, m, snap = apply_op(kind, c, m, op, k, U, ex, log, seen, forced)
            if snap:
                snaps.append(snap)
        for (c0, m0) in snaps:
            compare(c0, m0, U, 'original after operations on its copy', ex, seen)
        return len(log)
    return fn, ops


def unit(arg):
    kind, first_ops, n_ops, U, budget, init = arg
    fn, ops = harness(kind, first_ops, n_ops, U, init)
    pre = []
    for i in range(init):
        x = z3.Int(f'a{i}')
        pre += [x >= 0, x < U]
    for k in range(n_ops):
        for nm in ('v', 'w'):
            x = z3.Int(f'{nm}{k}')
            pre += [x >= 0, x < U]
    ex = Explorer(pre, max_paths=2_000_000, max_seconds=budget)
    paths = ex.run(fn)
    bad = []
    reach = 0
    for p in paths:
        if p.kind == 'ok':
            reach += 1
            continue
        e = p.value
        vals = {k: v for k, v in model_values(ex.witness(p)).items() if k[0] in 'vwa'}
        log = p.notes.get('log', [])
        bad.append(dict(
            kind=kind, error=f'{type(e).__name__}: {e}', is_mismatch=isinstance(e, Mismatch),
            picks=list(p.picks), n_ops=n_ops, first=first_ops, init=init,
            log=[list(map(str, t)) for t in log], witness=vals))
    st = ex.stats()
    samples = []
    for p in paths[:2]:
        m = ex.witness(p)
        samples.append(dict(container=kind, ops=[list(map(str, t)) for t in p.notes.get('log', [])],
                            path_condition=[str(c) for c in p.pc[:12]], outcome=p.kind))
    return dict(kind=kind, first=first_ops, stats=st, bad=bad[:20], nbad=len(bad), reach=reach,
                samples=samples)


# --- Predicates store (concrete picks over a universe of predicates) ---------

def predicates_harness(n_ops, first=None, wide=False):
    '''wide: five predicates (two symbols with two arities each + Identity) and the
    growing / assigning operations only; otherwise four predicates and every operation.'''
    from pytableaux.lang import Predicate, Predicates

    def universe():
        u = [Predicate(0, 0, 1), Predicate(0, 0, 2), Predicate(1, 0, 1), Predicate.Identity]
        if wide:
            u.append(Predicate(1, 0, 2))
        return u

    def conflict(m, p):
        for q in m:
            if q != p and (q.bicoords == p.bicoords):
                return True
        return False

    def check(c, m, what):
        lst = list(c)
        if lst != m or len(c) != len(m):
            raise Mismatch(f'{what}: content {lst} != model {m}')
        for p in universe():
            if (p in c) != (p in m):
                raise Mismatch(f'{what}: membership of {p}')
        for i, p in enumerate(m):
            for ref in p.refs:
                if c.get(ref) != p:
                    raise Mismatch(f'{what}: get({ref!r}) does not find {p}')
            if c.get(p) != p or c.index(p) != i or c[i] != p:
                raise Mismatch(f'{what}: lookup of {p}')
            for q in m[:i]:
                if q.bicoords == p.bicoords:
                    raise Mismatch(f'{what}: two predicates share the symbol {p.bicoords}')
        for p in universe():
            if p not in m and not p.is_system:
                # a non-member must not be found by its full spec
                got = c.get(p.spec, None)
                if got is not None:
                    raise Mismatch(f'{what}: get({p.spec}) finds non-member {got}')

    OPS = ('append', 'add', 'insert', 'remove', 'discard', 'delidx', 'setidx', 'clear', 'copy', 'update',
           'setslice')
    if wide:
        OPS = ('append', 'insert', 'setidx', 'setslice', 'update')

    def fn(ex=None):
        ex = ex or SymDriver()
        c = Predicates()
        m = []
        log = []
        ex.note('log', log)
        n = 1 + ex.pick(n_ops, 'len')
        U = universe()
        for k in range(n):
            op = 'update' if k == 0 else OPS[ex.pick(len(OPS), f'op{k}')]
            p = U[first[0]] if (k == 0 and first) else U[ex.pick(len(U), f'p{k}')]
            L = len(m)
            new_m = list(m)
            should = False
            bulk = False
            if op in ('append', 'add'):
                if p in m:
                    should = op == 'append'
                elif conflict(m, p):
                    should = True
                else:
                    new_m.append(p)
                act = (lambda: c.append(p)) if op == 'append' else (lambda: c.add(p))
                log.append((op, str(p.spec)))
            elif op == 'insert':
                i = pick_index(ex, L, f'i{k}')
                if p in m or conflict(m, p):
                    should = True
                else:
                    new_m.insert(i, p)
                act = lambda: c.insert(i, p)
                log.append((op, i, str(p.spec)))
            elif op in ('remove', 'discard'):
                if p in m:
                    new_m.remove(p)
                elif op == 'remove':
                    should = True
                act = (lambda: c.remove(p)) if op == 'remove' else (lambda: c.discard(p))
                log.append((op, str(p.spec)))
            elif op == 'delidx':
                i = pick_index(ex, L, f'i{k}')
                if -L <= i < L:
                    del new_m[i]
                else:
                    should = True

                def act():
                    del c[i]
                log.append((op, i))
            elif op == 'setidx':
                i = pick_index(ex, L, f'i{k}')
                if -L <= i < L:
                    rest = m[:i % L] + m[i % L + 1:] if L else []
                    if (p in m and m[i] != p) or conflict(rest, p):
                        should = True
                    else:
                        new_m[i] = p
                else:
                    should = True

                def act():
                    c[i] = p
                log.append((op, i, str(p.spec)))
            elif op == 'setslice':
                q = U[ex.pick(len(U), f'q{k}')]
                i = ex.pick(L + 1, f'i{k}')
                j = i + 2
                bulk = True
                size = len(range(*slice(i, j).indices(L)))
                trial = list(m)
                trial[i:j] = [p, q]
                ok = size == 2 and len(set(trial)) == len(trial)
                for a_, x_ in enumerate(trial):
                    for y_ in trial[:a_]:
                        if x_.bicoords == y_.bicoords and x_ != y_:
                            ok = False
                if ok:
                    new_m = trial
                else:
                    should = True

                def act():
                    c[i:j] = (p, q)
                log.append((op, i, j, str(p.spec), str(q.spec)))
            elif op == 'clear':
                new_m = []
                act = lambda: c.clear()
                log.append((op,))
            elif op == 'copy':
                c2 = c.copy()
                check(c2, m, f'op {k} copy')
                c = c2
                log.append((op,))
                continue
            else:
                q = U[first[1]] if (k == 0 and first) else U[ex.pick(len(U), f'q{k}')]
                bulk = True
                for r in (p, q):
                    if r in new_m:
                        continue
                    if conflict(new_m, r):
                        should = True
                        break
                    new_m.append(r)
                act = lambda: c.update([p, q])
                log.append((op, str(p.spec), str(q.spec)))
            raised = None
            try:
                act()
            except Exception as e:  # noqa: BLE001
                raised = e
            what = f'op {k} {log[-1]}'
            if raised is not None and not should:
                raise Mismatch(f'{what}: raised {type(raised).__name__}: {raised}')
            if raised is None and should:
                raise Mismatch(f'{what}: accepted but must be rejected')
            if raised is not None:
                if bulk:
                    m = list(c)
                    check(c, m, what + ' (bulk raised)')
                else:
                    check(c, m, what + ' (raised, unchanged)')
            else:
                m = new_m
                check(c, m, what)
        return len(log)

    return fn


def predicates_unit(arg):
    n_ops, budget, first = arg[:3]
    wide = bool(arg[3]) if len(arg) > 3 else False
    fn = predicates_harness(n_ops, first, wide)
    ex = Explorer((), max_paths=2_000_000, max_seconds=budget)
    paths = ex.run(fn)
    bad = []
    for p in paths:
        if p.kind != 'ok':
            e = p.value
            bad.append(dict(kind='Predicates', error=f'{type(e).__name__}: {e}',
                            is_mismatch=isinstance(e, Mismatch), picks=list(p.picks), n_ops=n_ops,
                            first=first, wide=wide,
                            log=[list(map(str, t)) for t in p.notes.get('log', [])], witness={}))
    samples = [dict(container='Predicates', ops=[list(map(str, t)) for t in p.notes.get('log', [])],
                    outcome=p.kind) for p in paths[-2:]]
    return dict(kind='Predicates', first=first, stats=ex.stats(), bad=bad[:20], nbad=len(bad),
                reach=sum(1 for p in paths if p.kind == 'ok'), samples=samples)


def run(ctx):
    rep = Report('C18', 'model_checking')
    n_ops = 2 if ctx.quick else 3
    U = 3
    budget = 600 if ctx.quick else 3000
    units = []
    for kind in ('qset', 'linqset'):
        ops = [o for o in ALL_OPS if not (o == 'wedge' and kind != 'linqset')
               and not (o == 'sort' and kind == 'linqset')]
        plan = [(2, 2), (1, 2), (0, 2)] if ctx.quick else [(2, 2), (1, 3), (0, 3)]
        for init, n in plan:
            for f in ops:
                if f == 'setslice':
                    for nv in range(3):
                        units.append((kind, [f'setslice:{nv}'], n, U, budget, init))
                else:
                    units.append((kind, [f], n, U, budget, init))
    t0 = time.time()
    with mp.Pool(ctx.jobs, maxtasksperchild=4) as pool:
        # every operation on four predicates: 3 operations in both tiers (4 do not exhaust: > 10^6
        # paths per first pair); the growing / assigning operations on five predicates: 3 / 4
        prs = [pool.apply_async(predicates_unit, ((3, budget, (i, j)),))
               for i in range(4) for j in range(4)]
        prs += [pool.apply_async(predicates_unit, ((3 if ctx.quick else 4, budget, (i, j), True),))
                for i in range(5) for j in range(5)]
        results = pool.map(unit, units, chunksize=1)
        results += [pr.get() for pr in prs]
    paths = decisions = queries = 0
    solver_time = 0.0
    qres = {'sat': 0, 'unsat': 0, 'unknown': 0}
    samples = []
    replays = 0
    for r in results:
        st = r['stats']
        paths += st['paths']
        decisions += st['decisions'] + st['picks']
        queries += st['queries']
        solver_time += st['solver_time_s']
        for k in qres:
            qres[k] += st['query_results'][k]
        samples += r['samples'][:1]
        if not st['exhausted']:
            rep.inconclusive.append(
                f'{r["kind"]} first={r["first"]}: exploration not exhausted '
                f'({st["paths"]} paths, {st["unexplored_prefixes"]} prefixes left)')
        if r['reach'] == 0:
            rep.harness_error(f'{r["kind"]} first={r["first"]}: no path reached the end (vacuous)')
        seen = set()
        for b in r['bad']:
            opsig = '>'.join(t[0] for t in b['log'])
            last = b['log'][-1][0] if b['log'] else '?'
            key = f'C18|{r["kind"]}|{last}|{b["error"].split(":")[0]}'
            if key in seen:
                continue
            seen.add(key)
            rep.violation(
                key, f'{r["kind"]}: after {opsig}: {b["error"]} (values {b["witness"]})',
                dict(container=r['kind'], log=b['log'], witness=b['witness'], U=U,
                     error=b['error'], picks=b['picks'], n_ops=b['n_ops'], first=b['first'],
                     init=b.get('init', 0), wide=b.get('wide', False)))
    rep.coverage = dict(
        states=paths, transitions=decisions, traces_validated_against_impl=replays,
        samples=samples[:6],
        bounds=dict(initial_elements='0..2 (symbolic, possibly equal)', operations_after_init=n_ops, universe=U, predicates_universe='F/1, F/2, G/1, Identity with every operation; F/1, F/2, G/1, G/2, Identity with append/insert/setidx/setslice/update; first operation is update([p, q]); 3 operations (wide universe: 4 in the thorough tier)',
                    slices='contiguous, start in [0,L+1], up to 2 replaced, up to 2 arriving'),
        operations=list(ALL_OPS),
        solver=dict(queries=queries, results=qres, solver_time_s=round(solver_time, 2)),
        functions_executed=['tools.hybrids.qset.*', 'tools.hybrids.MutableSequenceSet.*',
                            'tools.linked.linkseq.*', 'tools.linked.linqset.*',
                            'lang.collect.Predicates._hook_check/_hook_done/get'],
        file_hashes=file_hashes(FILES),
        exhaustive=not rep.inconclusive,
        rule='paths of the decision tree of the harness: every sequence of <= n operations, every '
             'index operand, every equality pattern of the value operands')
    rep.assumptions = [
        'reference model: Python list without duplicates; MutableSet in-place operators deduplicate '
        'their argument first',
        'values are z3 integers in [0,U); SymInt hashes to a constant so that set/dict lookups fall '
        'through to == (exact if equal values hash equal, which holds for ints)',
        'index operands are concrete per path (n-ary symbolic pick): list indexing needs a real int']
    return rep


def replay(data):
    """Concrete re-run of the same harness on the real containers: recorded
    picks and witness values, plain ints, no proxies, no solver."""
    kind = data['container']
    if kind == 'Predicates':
        fn = predicates_harness(data['n_ops'], data.get('first'), bool(data.get('wide')))
    else:
        fn, _ = harness(kind, data['first'], data['n_ops'], data['U'], data.get('init', 0))
    drv = ReplayDriver(data['picks'], data['witness'])
    try:
        fn(drv)
    except Mismatch as e:
        return True, f'{kind} {data["log"]} with {data["witness"]}: {e}'
    except Exception as e:  # noqa: BLE001
        return True, f'{kind} {data["log"]} with {data["witness"]}: {type(e).__name__}: {e}'
    return False, f'{kind} {data["log"]} with {data["witness"]}: model and container agree'
