"""C09 -- the verdict does not depend on how the proof is searched.

The real prover runs under pysymex with the search configuration symbolic:
`is_group_optim`, `is_rank_optim` are symbolic booleans (the code branches on
them: four paths), build-in-one-call vs. the step loop and the order /
multiplicity of the premises are symbolic picks; tie-break orders among equally
ranked rule targets are enumerated through the node-order seed of the
PYTABLEAUX_VERIF hook.  Per (logic, argument): no path raises, and the outcome
classes of all paths that are not produced by a step / world / constant limit
coincide.
"""
from __future__ import annotations

import itertools
import multiprocessing as mp

import z3

from engine.main import Report, file_hashes
from engine.pysymex import Explorer, ReplayDriver, SymBool, SymDriver
from families import args as fam
from families import prover

FILES = ['pytableaux/proof/tableaux.py', 'pytableaux/logics/kfde.py', 'pytableaux/proof/helpers.py',
         'pytableaux/proof/rules.py']


def premise_variants(arg):
    from pytableaux.lang import Argument
    prems = list(arg.premises)
    out = [prems]
    if len(prems) >= 2:
        out.append(prems[::-1])
    if prems:
        out.append(prems + prems[:1])
    seen = []
    for v in out:
        if v not in seen:
            seen.append(v)
    return [Argument(arg.conclusion, v) for v in seen]


def fn(drv, logic, argstr, seed, symbolic=True, fixed=None, options_only=False):
    from pytableaux.lang import Argument
    arg0 = Argument(argstr)
    variants = premise_variants(arg0)
    if fixed is not None:
        g, r, loop, vi = fixed
    else:
        g = drv.bool('is_group_optim')
        r = drv.bool('is_rank_optim')
        # further seeds vary the options only (call mode and premise variant as given)
        loop = 0 if options_only else drv.pick(2, 'step_loop')
        vi = 0 if options_only else drv.pick(len(variants), 'premises')
    tab = prover.build(logic, variants[vi], seed, step_loop=bool(loop), is_group_optim=g, is_rank_optim=r,
                       max_steps=250)
    return dict(cls=prover.outcome(tab), steps=len(tab.history), loop=loop, variant=vi,
                rules=prover.rules_applied(tab))


def unit(arg_):
    name, shapes, seeds = arg_
    from pytableaux.logics import registry
    registry.import_all()
    drv = SymDriver()
    out = dict(logic=name, pairs=0, paths=0, decisions=0, bad=[], samples=[], limit_only=0)
    for argstr in shapes:
        classes = {}
        raised = []
        rules = set()
        for seed in seeds:
            ex = Explorer([], max_paths=200, max_seconds=300)
            paths = ex.run(lambda: fn(drv, name, argstr, seed, options_only=(seed != seeds[0])))
            out['paths'] += len(paths)
            out['decisions'] += ex.decisions_total + ex.picks_total
            for p in paths:
                cfg = dict(seed=seed, picks=list(p.picks) if seed == seeds[0] else [0, 0])
                for c in p.pc:
                    if z3.is_not(c) and z3.is_const(c.arg(0)) and c.arg(0).sort() == z3.BoolSort():
                        cfg[str(c.arg(0))] = False
                    elif z3.is_const(c) and c.sort() == z3.BoolSort():
                        cfg[str(c)] = True
                if p.kind != 'ok':
                    raised.append((cfg, f'{type(p.value).__name__}: {p.value}'))
                    continue
                rules |= set(p.value['rules'])
                classes.setdefault(p.value['cls'], cfg | dict(loop=p.value['loop'], variant=p.value['variant']))
        out['pairs'] += 1
        real = {k: v for k, v in classes.items() if k != 'limit'}
        if not real:
            out['limit_only'] += 1
        if raised:
            out['bad'].append(dict(argstr=argstr, why=f'a configuration raised: {raised[0][1]}',
                                   cfgs=[raised[0][0]], rules=sorted(rules), kind='raise'))
        if len(real) > 1:
            out['bad'].append(dict(argstr=argstr, why=f'outcome depends on the search: {sorted(real)}',
                                   cfgs=[real[k] for k in sorted(real)], rules=sorted(rules), kind='differ'))
        if len(out['samples']) < 2:
            out['samples'].append(dict(logic=name, argument=argstr, classes=sorted(classes),
                                       configurations=len(seeds) * 8 * len(premise_variants(
                                           __import__('pytableaux.lang', fromlist=['Argument']).Argument(argstr)))))
    return out


def plan(ctx):
    from pytableaux.logics import registry
    registry.import_all()
    names = sorted(registry(n).Meta.name for n in registry.all())
    pool = fam.examples() + fam.M + fam.Q + fam.MQ
    special = ['Ma:MKab', 'KMaMb:Mc', 'a:NFn:Gm:SxFx', 'LMa:LLMa', 'b:La:LMb', 'MSxFx:SxMFx',
               # a necessity node re-applied next to several possibility nodes; a nested necessity
               # behind one of two equally ranked possibility nodes
               'e:La:Mb:Mc:Md', 'e:Ma:MLLKbNb', 'e:LLa:Mb:Mc',
               # ends with exactly the projected number of worlds
               'c:LMa:MKLdNd:Me']
    units = []
    for name in names:
        sel = fam.select(pool, 9 if ctx.quick else 50, ctx.seed + 3, name) + special
        if not ctx.quick:
            sel += fam.random_args(ctx.seed, 20)
            # coverage-directed: proofs that end exactly at the projected world / constant maximum
            from families import boundary
            sel += boundary.select(name, ctx.seed, want=3, tries=60)
        sel = list(dict.fromkeys(sel))
        seeds = [ctx.seed, ctx.seed + 1] if ctx.quick else [ctx.seed + i for i in range(4)]
        n = 2 if ctx.quick else 8
        for k in range(n):
            units.append((name, sel[k::n], seeds))
    return units


def run(ctx):
    rep = Report('C09', 'model_checking')
    units = plan(ctx)
    with mp.Pool(ctx.jobs) as pool:
        results = pool.map(unit, units, chunksize=1)
    paths = trans = pairs = limit_only = 0
    samples = []
    for r in results:
        paths += r['paths']
        trans += r['decisions']
        pairs += r['pairs']
        limit_only += r['limit_only']
        if len(samples) < 5:
            samples += r['samples'][:1]
        for b in r['bad']:
            key = prover.attribute('C09', r['logic'], b['argstr'], b['rules'], b['kind'])
            rep.violation(key, f'{r["logic"]} {b["argstr"]}: {b["why"]} (configurations {b["cfgs"]})',
                          dict(logic=r['logic'], argstr=b['argstr'], cfgs=b['cfgs'], kind=b['kind']))
    rep.coverage = dict(
        states=paths, transitions=trans, traces_validated_against_impl=0, samples=samples,
        logic_argument_pairs=pairs, pairs_with_limit_outcomes_only=limit_only,
        bounds=dict(arguments='9 per logic by seed + 10 fixed' if ctx.quick else '50 per logic + 10 fixed + 20 random + boundary family (families/boundary.py)',
                    options='both flags symbolic', call_mode='build | step loop (symbolic pick)',
                    premises='original, reversed, first premise repeated at the end (symbolic pick)',
                    tie_break_seeds=2 if ctx.quick else 4, max_steps=250,
                    note='call mode and premise variants are explored on the first seed; further seeds vary the options'),
        functions_executed=['Tableau.build/step', 'Rule._extend_targets/_select_best_target',
                            'Tableau._get_group_application/_select_optim_group_application',
                            'score_candidate/group_score of all rules', 'FilterNodeCache.node_targets'],
        file_hashes=file_hashes(FILES), exhaustive=True,
        rule='paths = option values x call mode x premise variant, per seed')
    rep.assumptions = ['tie-break orders are sampled by seeds, not exhausted',
                       'outcomes produced only by limits are not verdicts (excluded, as the property states)']
    return rep


def replay(data):
    from pytableaux.logics import registry
    registry.import_all()
    outs = []
    for cfg in data['cfgs']:
        picks = list(cfg.get('picks', [0, 0]))
        fixed = (bool(cfg.get('is_group_optim', True)), bool(cfg.get('is_rank_optim', True)),
                 picks[0] if picks else 0, picks[1] if len(picks) > 1 else 0)
        try:
            r = fn(None, data['logic'], data['argstr'], cfg.get('seed', 0), fixed=fixed)
            outs.append(r['cls'])
        except Exception as e:  # noqa: BLE001
            return True, f'{data["logic"]} {data["argstr"]} {cfg}: raised {type(e).__name__}: {e}'
    real = {o for o in outs if o != 'limit'}
    return len(real) > 1, f'{data["logic"]} {data["argstr"]}: outcomes {outs} for {data["cfgs"]}'
