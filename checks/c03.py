"""C03 -- propositional arguments are decided exactly, without limits.

For every propositional argument shape of the family P(s) (families/args.py)
and every registered logic:

* z3 decides validity in the specification semantics: one query
  ``exists assignment of the logic's values to the letters: all premises
  designated and the conclusion not`` (unsat = valid) -- all assignments, not
  an enumeration;
* the real prover runs under pysymex with the two optimisation options as
  symbolic booleans (4 paths); on every path the tableau must be finished and
  complete, carry no limit flag, and its verdict must equal the solver's.
"""
from __future__ import annotations

import itertools
import multiprocessing as mp

import z3

from engine.main import Report, file_hashes
from engine.pysymex import Explorer, SymBool
from engine.semz3 import Interp, LogicSem, Stats
from families import args as fam
from families import prover

FILES = ['pytableaux/proof/tableaux.py', 'pytableaux/proof/rules.py', 'pytableaux/proof/helpers.py',
         'pytableaux/models/__init__.py']


def z3_valid(S, arg, stats):
    I = Interp(S, 'spec', W=1, K=1)
    terms = [I.des(p, 0) for p in arg.premises] + [z3.Not(I.des(arg.conclusion, 0))]
    s = z3.Solver()
    s.add(*I.constraints())
    s.add(*terms)
    r = stats.check(s)
    if r == z3.unsat:
        return True, None
    if r == z3.sat:
        m = s.model()
        return False, I.describe(m)
    return None, None


def unit(arg_):
    name, shapes, seed, symbolic_opts = arg_
    from pytableaux.lang import Argument
    from pytableaux.logics import registry
    registry.import_all()
    S = LogicSem(name)
    stats = Stats()
    out = dict(logic=name, shapes=0, runs=0, paths=0, bad=[], unknown=0, samples=[], valid=0, invalid=0)
    for argstr in shapes:
        arg = Argument(argstr)
        want, cm = z3_valid(S, arg, stats)
        if want is None:
            out['unknown'] += 1
            continue
        out['shapes'] += 1
        out['valid' if want else 'invalid'] += 1

        def fn():
            g = SymBool('is_group_optim') if symbolic_opts else True
            r = SymBool('is_rank_optim') if symbolic_opts else True
            tab = prover.build(name, arg, seed, is_group_optim=g, is_rank_optim=r)
            flags = any(prover.has_quit_flag(b) for b in tab)
            return dict(finished=tab.finished, premature=tab.premature, valid=tab.valid,
                        invalid=tab.invalid, flags=flags, steps=len(tab.history),
                        rules=prover.rules_applied(tab))
        ex = Explorer([], max_paths=16, max_seconds=120)
        paths = ex.run(fn)
        out['paths'] += len(paths)
        if not ex.exhausted:
            out['unknown'] += 1
        for p in paths:
            out['runs'] += 1
            opts = {}
            for c in p.pc:
                if z3.is_not(c):
                    opts[str(c.arg(0))] = False
                else:
                    opts[str(c)] = True
            if p.kind != 'ok':
                out['bad'].append(dict(argstr=argstr, opts=opts, why=f'raised {type(p.value).__name__}: {p.value}',
                                       rules=[], want=want))
                continue
            r = p.value
            why = None
            if not r['finished'] or r['premature']:
                why = 'tableau did not complete on its own'
            elif r['flags']:
                why = 'a limit flag appeared on a propositional argument'
            elif bool(r['valid']) != want:
                why = (f'prover says {"valid" if r["valid"] else "invalid"}, every-assignment check says '
                       f'{"valid" if want else "invalid"}' + (f' (countermodel {cm})' if cm else ''))
            if why:
                out['bad'].append(dict(argstr=argstr, opts=opts, why=why, rules=r['rules'], want=want))
        if len(out['samples']) < 2 and paths and paths[0].kind == 'ok':
            out['samples'].append(dict(logic=name, argument=argstr, z3_valid=want,
                                       option_paths=len(paths), steps=paths[0].value['steps']))
    out['stats'] = stats.asdict()
    return out


def schematic_unit(name):
    '''Termination lemma for the propositional fragment (structural, not
    solver-decided): (i) for every compound node shape (operator, negated,
    designation) over letters the real tableau of that single node terminates
    on its own and leaves only literal nodes unticked; (ii) the rule output is
    uniform in the operands: expanding the shape over compound operands adds
    exactly the substitution instances of what it adds over letters.  By
    induction on the sentence, every propositional tableau then terminates
    without limits.'''
    from pytableaux.lang import Atomic, Operator
    from pytableaux.logics import registry
    from pytableaux.proof import Tableau, sdwnode
    from engine.tabutil import reset_order
    registry.import_all()
    logic = registry(name)
    modal = bool(logic.Meta.modal)
    w0 = 0 if modal else None
    fde = any(getattr(r, 'designation', None) is not None for r in logic.Rules.all())
    desigs = (True, False) if fde else (None,)
    A, B, C, D = (Atomic(i, 0) for i in range(4))
    sub = {A: C & D, B: ~C}
    out = dict(logic=name, shapes=0, bad=[], max_steps=0)

    def subst(s):
        t = type(s).__name__
        if t == 'Atomic':
            return sub.get(s, s)
        return s.operator(*[subst(x) for x in s.operands])

    def is_literal(s):
        t = type(s).__name__
        return t == 'Atomic' or (t == 'Operated' and s.operator.name == 'Negation'
                                 and type(s.lhs).__name__ == 'Atomic')
    for op in Operator:
        if op.name in ('Possibility', 'Necessity'):
            continue
        for neg in (False, True):
            base = op(A) if op.arity == 1 else op(A, B)
            s = ~base if neg else base
            if op.name == 'Negation' and not neg:
                continue   # a negated letter is a literal; double negation is the neg=True case
            for d in desigs:
                out['shapes'] += 1
                reset_order()
                tab = Tableau(logic)
                b = tab.branch()
                b.append(sdwnode(s, d, w0))
                tab.build()
                steps = len(tab.history)
                out['max_steps'] = max(out['max_steps'], steps)
                if tab.premature or any(prover.has_quit_flag(x) for x in tab):
                    out['bad'].append(f'{s} d={d}: schematic tableau did not complete on its own')
                    continue
                for br in tab:
                    for n in br:
                        sn = n.get('sentence')
                        if sn is not None and not br.is_ticked(n) and not is_literal(sn) and not br.closed:
                            out['bad'].append(f'{s} d={d}: compound node {sn} left unexpanded')
                # uniformity: first step on the substituted node
                reset_order()
                t1 = Tableau(logic)
                b1 = t1.branch()
                b1.append(sdwnode(s, d, w0))
                e1 = t1.step()
                reset_order()
                t2 = Tableau(logic)
                b2 = t2.branch()
                b2.append(sdwnode(subst(s), d, w0))
                e2 = t2.step()
                if e1 is None or e2 is None:
                    if (e1 is None) != (e2 is None):
                        out['bad'].append(f'{s} d={d}: a rule applies over letters but not over compound operands')
                    continue
                def prof(n, f):
                    sn = n.get('sentence')
                    rest = tuple(sorted((k, str(v)) for k, v in n.items() if k != 'sentence'))
                    return (f(sn) if sn is not None else None, rest)
                g1 = [[prof(n, subst) for n in g] for g in e1.target['adds']]
                g2 = [[prof(n, lambda x: x) for n in g] for g in e2.target['adds']]
                if e1.rule.name != e2.rule.name or g1 != g2:
                    out['bad'].append(f'{s} d={d}: expansion is not uniform in the operands '
                                      f'({e1.rule.name}: {g1} vs {e2.rule.name}: {g2})')
    return out


def plan(ctx):
    from pytableaux.logics import registry
    registry.import_all()
    names = sorted(registry(n).Meta.name for n in registry.all())
    p0, p1, p2 = fam.prop(0), fam.prop(1), fam.prop(2)
    units = []
    for name in names:
        if ctx.quick:
            shapes = p0 + p1 + fam.select(p2, 100, ctx.seed, name)
        else:
            shapes = p0 + p1 + fam.select(p2, 1200, ctx.seed, name) + fam.select(fam.prop(3), 300, ctx.seed, name)
        # split per logic into chunks for load balance
        n = 4 if ctx.quick else 16
        if ctx.quick:
            # both option flags symbolic on P(0), P(1); default options on the P(2) selection
            small = p0 + p1
            rest = [x for x in shapes if x not in set(small)]
            for k in range(n):
                units.append((name, small[k::n], ctx.seed, True))
            units.append((name, rest, ctx.seed, False))
            shapes = []
        for k in range(n if shapes else 0):
            units.append((name, shapes[k::n], ctx.seed, True))
        # directed family: depth-1 sentence against depth-1 sentence (default options)
        d1 = fam.depth1_pairs()
        for k in range(2):
            units.append((name, d1[k::2], ctx.seed, False))
    return units


def run(ctx):
    rep = Report('C03', 'model_checking')
    units = plan(ctx)
    from pytableaux.logics import registry
    registry.import_all()
    names = sorted(registry(n).Meta.name for n in registry.all())
    with mp.Pool(ctx.jobs) as pool:
        ar = pool.map_async(schematic_unit, names, chunksize=2)
        results = pool.map(unit, units, chunksize=1)
        sres = ar.get()
    schem = 0
    longest = 0
    for r in sres:
        schem += r['shapes']
        longest = max(longest, r['max_steps'])
        for b in r['bad'][:3]:
            rep.violation(f'C03|{r["logic"]}|termination-lemma|{b.split(":")[0]}', f'{r["logic"]}: {b}',
                          dict(kind='schematic', logic=r['logic']))
    stats = Stats()
    shapes = runs = paths = valid = invalid = 0
    samples = []
    for r in results:
        stats.merge(r['stats'])
        shapes += r['shapes']
        runs += r['runs']
        paths += r['paths']
        valid += r['valid']
        invalid += r['invalid']
        if len(samples) < 6:
            samples += r['samples'][:1]
        if r['unknown']:
            rep.inconclusive.append(f'{r["logic"]}: {r["unknown"]} shapes with an inconclusive query or exploration')
        for b in r['bad']:
            key = prover.attribute('C03', r['logic'], b['argstr'], b['rules'])
            rep.violation(key, f'{r["logic"]} {b["argstr"]} {b["opts"]}: {b["why"]}',
                          dict(logic=r['logic'], argstr=b['argstr'], opts=b['opts'], seed=ctx.seed,
                               want=b['want']))
    if valid == 0 or invalid == 0:
        rep.harness_error('vacuous: the family has no valid or no invalid argument')
    rep.coverage = dict(
        states=paths, transitions=runs, traces_validated_against_impl=0, samples=samples,
        shapes_times_logics=shapes, z3_valid=valid, z3_invalid=invalid,
        termination_lemma=dict(schematic_shapes=schem, longest_schematic_tableau=longest,
                               argument='structural induction: every compound shape over letters terminates and '
                                        'rule output is uniform in the operands (concrete runs, not solver-decided)'),
        bounds=dict(family='P(0), P(1) complete, 100 of P(2) per logic by seed, 342 depth-1 pairs (default options)' if ctx.quick
                    else 'P(0), P(1) complete, 1200 of P(2) and 300 of P(3) per logic by seed',
                    letters='<= 3', premises='<= 2', options='both optimisation flags symbolic (4 paths) on P(0), P(1) (thorough: everywhere); default otherwise',
                    order_seed=ctx.seed),
        solver=stats.asdict(),
        functions_executed=['Tableau.build/step/next/_get_group_application', 'all operator rules of each logic',
                            'closure rules', 'Rule._extend_targets/_select_best_target (both option values)'],
        file_hashes=file_hashes(FILES), exhaustive=not rep.inconclusive,
        rule='one z3 validity query per (logic, shape); 4 option paths per real run')
    rep.assumptions = ['oracle: spec/tables.py semantics; a non-modal formula is evaluated at one world',
                       'violations on runs that applied a rule listed as a C04 known finding are attributed to it']
    return rep


def replay(data):
    'Concrete run and brute-force validity with the plain-Python evaluator.'
    if data.get('kind') == 'schematic':
        r = schematic_unit(data['logic'])
        return bool(r['bad']), f'{data["logic"]}: {r["bad"][:2]}'
    from pytableaux.lang import Argument
    from pytableaux.logics import registry
    from spec import tables as spec
    from spec.evaluator import Evaluator
    registry.import_all()
    arg = Argument(data['argstr'])
    opts = {k: bool(v) for k, v in (data.get('opts') or {}).items()
            if k in ('is_group_optim', 'is_rank_optim')}
    try:
        tab = prover.build(data['logic'], arg, data.get('seed', 0), **opts)
    except Exception as e:  # noqa: BLE001
        return True, f'build raised {type(e).__name__}: {e}'
    info = spec.logic_info(data['logic'])
    base = info['base']
    atoms = sorted({a for s in arg for a in s.atomics})
    valid = True
    cm = None
    R = {(0, 0)}
    for combo in itertools.product(spec.values(base), repeat=len(atoms)):
        interp = dict(worlds=[0], R=R, K=1, A={(tuple(a.spec), 0): v for a, v in zip(atoms, combo)})
        ev = Evaluator(data['logic'], interp)
        if all(ev.designated(p) for p in arg.premises) and not ev.designated(arg.conclusion):
            valid = False
            cm = dict(zip(map(str, atoms), combo))
            break
    flags = any(prover.has_quit_flag(b) for b in tab)
    bad = tab.premature or flags or bool(tab.valid) != valid
    return bad, (f'{data["logic"]} {data["argstr"]} {opts}: prover valid={tab.valid} premature={tab.premature} '
                 f'flags={flags}; truth-table valid={valid} countermodel={cm}')
