"""C14 -- lexical items have value semantics.

Three explorations under pysymex, all on the real code:

kernel   `Lexical.orderitems`, the six rich comparisons and the `Argument`
         comparison wrapper on objects whose `sort_tuple`s are *arbitrary*
         symbolic integer tuples (lengths 1..3): sign antisymmetry,
         transitivity on triples, `==` <=> zero-padded equality, `<,<=,>,>=`
         consistent with the sign.
items    every pair of item shapes (all nine lexical types, sentences up to
         depth 2) built by the real constructors from symbolic coordinates:
         `x == y` <=> same ident; `x == y` => identical sort_tuple (length
         included) and equal real hash (on the path's witness); type rank
         decides first; exactly one of <, ==, >.
rebuild  `type(x)(*x.spec)`, `LexicalAbc(x.ident)`, `Sentence(x.ident)`, copy,
         deepcopy, pickle after symbolic construction histories, in
         subprocesses with ITEM_CACHE_SIZE in {1, 2, 3, 1000} (cold, warm and
         evicted cache); plus immutability per type.
"""
from __future__ import annotations

import json
import os
import subprocess
import sys
import time

import z3

from engine.main import Report, file_hashes

FILES = ['pytableaux/lang/lex.py', 'pytableaux/lang/collect.py', 'pytableaux/lang/__init__.py']


class Bad(Exception):
    pass


# ---------------------------------------------------------------------------
# kernel
# ---------------------------------------------------------------------------

def kernel_fn(ex, force_len_a=None):
    from types import SimpleNamespace

    from pytableaux.lang.lex import Lexical

    def mk(tag):
        if tag == 'a' and force_len_a:
            n = force_len_a
        else:
            n = 1 + ex.pick(3, f'len_{tag}')
        return SimpleNamespace(sort_tuple=tuple(ex.int(f'{tag}{i}') for i in range(n)))

    def sign(r):
        if bool(r < 0):
            return -1
        if bool(r > 0):
            return 1
        return 0

    def padded_equal(x, y):
        n = max(len(x.sort_tuple), len(y.sort_tuple))
        for i in range(n):
            xi = x.sort_tuple[i] if i < len(x.sort_tuple) else 0
            yi = y.sort_tuple[i] if i < len(y.sort_tuple) else 0
            if not bool(xi == yi):
                return False
        return True
    a, b, c = mk('a'), mk('b'), mk('c')
    ex.note('tuples', (a, b, c))
    sab = sign(Lexical.orderitems(a, b))
    sba = sign(Lexical.orderitems(b, a))
    if sab != -sba:
        raise Bad('orderitems is not antisymmetric')
    if (sab == 0) != padded_equal(a, b):
        raise Bad('orderitems == 0 differs from zero-padded equality')
    for name, want in (('__lt__', sab < 0), ('__le__', sab <= 0), ('__gt__', sab > 0),
                       ('__ge__', sab >= 0), ('__eq__', sab == 0)):
        got = bool(getattr(Lexical, name)(a, b))
        if got != want:
            raise Bad(f'{name} inconsistent with orderitems')
    sbc = sign(Lexical.orderitems(b, c))
    sac = sign(Lexical.orderitems(a, c))
    if sab <= 0 and sbc <= 0 and not sac <= 0:
        raise Bad('order is not transitive')
    if sab == 0 and sbc == 0 and sac != 0:
        raise Bad('equality is not transitive')
    if sab < 0 and sbc <= 0 and not sac < 0:
        raise Bad('strict order is not transitive')
    return (sab, sbc, sac)


def argument_fn(ex, nx=None, ny=None):
    'Argument comparison wrapper on arguments of symbolic letters.'
    from pytableaux.lang import Argument, Atomic
    from engine import lexsym
    lexsym.reset_cache()

    def mk(tag):
        forced = nx if tag == 'x' else ny
        n = ex.pick(3, f'np_{tag}') if forced is None else forced
        conc = Atomic(ex.int(f'{tag}c_i'), ex.int(f'{tag}c_s'))
        prems = [Atomic(ex.int(f'{tag}p{i}_i'), ex.int(f'{tag}p{i}_s')) for i in range(n)]
        return Argument(conc, prems)
    x, y = mk('x'), mk('y')

    def same(p, q):
        if len(p) != len(q):
            return False
        for s, t in zip(p, q):
            if not bool(s == t):
                return False
        return True
    eq = bool(x == y)
    if eq != same(x, y):
        raise Bad('Argument == differs from "same conclusion and same premises in order"')
    lt, gt = bool(x < y), bool(x > y)
    if (lt + gt + eq) != 1:
        raise Bad('Argument: not exactly one of <, ==, >')
    if bool(x <= y) != (lt or eq) or bool(x >= y) != (gt or eq):
        raise Bad('Argument: <=, >= inconsistent')
    if bool(y > x) != lt or bool(y < x) != gt:
        raise Bad('Argument: order not antisymmetric')
    return eq


# ---------------------------------------------------------------------------
# items
# ---------------------------------------------------------------------------

def shapes():
    """name -> builder(ex, tag) of an item from symbolic coordinates."""
    from pytableaux.lang import (Atomic, Constant, Operator, Predicate, Quantifier,
                                 Variable)

    def C(ex, t):
        return Constant(ex.int(f'{t}_ci'), ex.int(f'{t}_cs'))

    def D(ex, t):
        return Constant(ex.int(f'{t}_di'), ex.int(f'{t}_ds'))

    def V(ex, t):
        return Variable(ex.int(f'{t}_vi'), ex.int(f'{t}_vs'))

    def A(ex, t):
        return Atomic(ex.int(f'{t}_ai'), ex.int(f'{t}_as'))

    def B(ex, t):
        return Atomic(ex.int(f'{t}_bi'), ex.int(f'{t}_bs'))

    def P1(ex, t):
        return Predicate(ex.int(f'{t}_pi'), ex.int(f'{t}_ps'), 1)

    def P2(ex, t):
        return Predicate(ex.int(f'{t}_pi'), ex.int(f'{t}_ps'), 2)
    return {
        'Constant': C, 'Variable': V, 'Atomic': A, 'Predicate/1': P1, 'Predicate/2': P2,
        'SystemPredicate': lambda ex, t: (Predicate.Identity, Predicate.Existence)[ex.pick(2, f'{t}_sys')],
        'Quantifier': lambda ex, t: list(Quantifier)[ex.pick(2, f'{t}_q')],
        'Operator': lambda ex, t: list(Operator)[ex.pick(len(Operator), f'{t}_o')],
        'Fc': lambda ex, t: P1(ex, t)(C(ex, t)),
        'Fx': lambda ex, t: P1(ex, t)(V(ex, t)),
        'Rcd': lambda ex, t: P2(ex, t)((C(ex, t), D(ex, t))),
        'c=d': lambda ex, t: Predicate.Identity((C(ex, t), D(ex, t))),
        'E!c': lambda ex, t: Predicate.Existence(C(ex, t)),
        '~A': lambda ex, t: ~A(ex, t),
        'op(A,B)': lambda ex, t: [Operator.Conjunction, Operator.Disjunction, Operator.Conditional][
            ex.pick(3, f'{t}_op')](A(ex, t), B(ex, t)),
        '~Fc': lambda ex, t: ~(P1(ex, t)(C(ex, t))),
        'A&~B': lambda ex, t: A(ex, t) & ~B(ex, t),
        'QxFx': lambda ex, t: (lambda v: list(Quantifier)[ex.pick(2, f'{t}_q')](v, P1(ex, t)(v)))(V(ex, t)),
        'Qx(Fx&A)': lambda ex, t: (lambda v: list(Quantifier)[ex.pick(2, f'{t}_q')](
            v, P1(ex, t)(v) & A(ex, t)))(V(ex, t)),
        '~QxFx': lambda ex, t: ~(lambda v: Quantifier.Existential(v, P1(ex, t)(v)))(V(ex, t)),
        'MA': lambda ex, t: Operator.Possibility(A(ex, t)),
    }


def ident_equal(p, q):
    'structural comparison of ident tuples with symbolic leaves'
    if isinstance(p, tuple) or isinstance(q, tuple):
        if not (isinstance(p, tuple) and isinstance(q, tuple)) or len(p) != len(q):
            return False
        for a, b in zip(p, q):
            if not ident_equal(a, b):
                return False
        return True
    r = (p == q)
    return bool(r)


def pair_fn(ex, n1, n2):
    from engine import lexsym
    lexsym.reset_cache()
    sh = shapes()
    x = sh[n1](ex, 'x')
    y = sh[n2](ex, 'y')
    ex.note('items', (n1, n2))
    eq = bool(x == y)
    same = ident_equal(x.ident, y.ident)
    if eq != same:
        raise Bad(f'== is {eq} but structural identity is {same}')
    if bool(x != y) == eq:
        raise Bad('!= is not the negation of ==')
    lt, gt = bool(x < y), bool(x > y)
    if (lt + gt + eq) != 1:
        raise Bad(f'not exactly one of <, ==, >: lt={lt} eq={eq} gt={gt}')
    if bool(x <= y) != (lt or eq) or bool(x >= y) != (gt or eq):
        raise Bad('<=, >= inconsistent with <, ==, >')
    if bool(y < x) != gt or bool(y > x) != lt or bool(y == x) != eq:
        raise Bad('comparison not antisymmetric / symmetric')
    rx, ry = x.TYPE.rank, y.TYPE.rank
    if rx != ry and lt != (rx < ry):
        raise Bad('type rank does not decide the order between different types')
    if eq:
        sx, sy = x.sort_tuple, y.sort_tuple
        if len(sx) != len(sy):
            raise Bad('equal items have sort_tuples of different length')
        for a, b in zip(sx, sy):
            if not bool(a == b):
                raise Bad('equal items have different sort_tuples')
    return (eq, lt, gt)


# ---------------------------------------------------------------------------
# rebuild (runs in a subprocess with a given ITEM_CACHE_SIZE)
# ---------------------------------------------------------------------------

def rebuild_fn(ex, names):
    """Construct the items `names` in order (a construction history against a
    small cache), then rebuild the first one in every published way."""
    import copy

    from pytableaux.lang import LexicalAbc, Sentence
    from engine import lexsym
    lexsym.reset_cache()
    sh = shapes()
    items = [sh[n](ex, f'h{i}') for i, n in enumerate(names)]
    x = items[0]
    ex.note('items', tuple(names))
    cls = type(x)
    if not hasattr(x, 'spec'):
        return 0
    ways = {}
    if type(x).__name__ not in ('Quantifier', 'Operator'):
        ways['type(x)(*x.spec)'] = lambda: cls(*x.spec)
        ways['LexicalAbc(x.ident)'] = lambda: LexicalAbc(x.ident)
        if isinstance(x, Sentence):
            ways['Sentence(x.ident)'] = lambda: Sentence(x.ident)
    ways['copy.copy'] = lambda: copy.copy(x)
    ways['copy.deepcopy'] = lambda: copy.deepcopy(x)
    for wname, f in ways.items():
        try:
            y = f()
        except Exception as e:  # noqa: BLE001
            raise Bad(f'{wname} raised {type(e).__name__}: {e}')
        if not bool(y == x):
            raise Bad(f'{wname} is not equal to the original')
        if type(y) is not type(x):
            raise Bad(f'{wname} has a different type')
    # an abstract role class given the ident of an item of another role refuses it,
    # whether or not that item is in the cache (here it is: it was just built)
    if type(x).__name__ not in ('Quantifier', 'Operator'):
        from pytableaux.lang import Parameter, Predicate
        wrong = [c for c in (Sentence, Parameter, Predicate) if not isinstance(x, c)]
        for c in wrong:
            try:
                y = c(x.ident)
            except TypeError:
                continue
            except Exception as e:  # noqa: BLE001
                raise Bad(f'{c.__name__}(ident of a {type(x).__name__}) raised {type(e).__name__}: {e}')
            raise Bad(f'{c.__name__}(ident of a {type(x).__name__}) returned {y!r} (cached item of another role)')
    return len(ways)


XPROC_CHILD = r'''
import pickle, sys
from pytableaux.lang import Argument, LexicalAbc, Operator, Quantifier
data = pickle.loads(sys.stdin.buffer.read())
out = []
for kind, ident, blob in data:
    try:
        if kind == 'Argument':
            fresh = Argument(ident)
        elif kind == 'Operator':
            fresh = Operator[ident]
        elif kind == 'Quantifier':
            fresh = Quantifier[ident]
        else:
            fresh = LexicalAbc(ident)
        hash(fresh)
        y = pickle.loads(blob)
        ok = (y == fresh) and hash(y) == hash(fresh) and (y in {fresh}) and type(y) is type(fresh)
        out.append((ok, repr(y)))
    except Exception as e:
        out.append((False, type(e).__name__ + ': ' + str(e)))
sys.stdout.buffer.write(pickle.dumps(out))
'''


def cross_process_pickle(items):
    '''Pickle here, load in a fresh interpreter with another hash seed, where an
    equal item is built first (from the ident): the loaded item must be equal
    to it, hash alike and be found in a set holding it.  Returns a list of
    (item, message) for the failures.'''
    import pickle
    data = []
    for x in items:
        tn = type(x).__name__
        if tn == 'Argument':
            data.append(('Argument', x.argstr(), pickle.dumps(x)))
        elif tn in ('Operator', 'Quantifier'):
            data.append((tn, x.name, pickle.dumps(x)))
        else:
            data.append((tn, x.ident, pickle.dumps(x)))
    env = dict(os.environ)
    env['PYTHONHASHSEED'] = '4242'
    env.pop('ITEM_CACHE_SIZE', None)
    r = subprocess.run([sys.executable, '-W', 'ignore', '-c', XPROC_CHILD], input=pickle.dumps(data),
                       env=env, capture_output=True, timeout=300)
    if r.returncode != 0:
        raise RuntimeError(f'cross-process child failed: {r.stderr.decode()[-400:]}')
    res = pickle.loads(r.stdout)
    return [(x, msg) for x, (ok, msg) in zip(items, res) if not ok]


def xproc_items():
    from pytableaux.lang import (Argument, Atomic, Constant, Operator, Predicate,
                                 Quantifier, Variable)
    a, b = Constant(0, 0), Constant(1, 2)
    x = Variable(0, 0)
    F, G = Predicate(0, 0, 1), Predicate(1, 3, 2)
    A, B = Atomic(0, 0), Atomic(2, 1)
    return [A, B, a, b, x, F, G, Predicate.Identity, Predicate.Existence, F(a), G(a, b),
            Predicate.Identity(a, b), ~A, A & B, Operator.Possibility(A) | ~B,
            Quantifier.Existential(x, F(x)), Quantifier.Universal(x, Operator.Conditional(G(x, a), F(x))),
            Operator.Negation, Operator.Biconditional, Quantifier.Universal,
            Argument('Fm:VxFx'), Argument('b:Cab:a'), Argument('a')]


def immutability():
    'concrete: attribute assignment / deletion raise for every type'
    from pytableaux.lang import (Argument, Atomic, Constant, Operator, Predicate,
                                 Quantifier, Variable)
    a = Constant(0, 0)
    v = Variable(0, 0)
    F = Predicate(0, 0, 1)
    items = [a, v, F, Predicate.Identity, Atomic(0, 0), F(a), Quantifier.Existential(v, F(v)),
             ~Atomic(0, 0), Quantifier.Universal, Operator.Negation, Argument(Atomic(0, 0))]
    bad = []
    for it in items:
        for attr in ('spec', 'ident', 'sort_tuple', 'hash', 'index', 'premises', 'operator', 'brand_new'):
            if attr != 'brand_new' and not hasattr(it, attr):
                continue
            old = getattr(it, attr, None)
            try:
                setattr(it, attr, 1)
                bad.append(f'{type(it).__name__}.{attr} assignable')
                try:
                    object.__setattr__(it, attr, old)
                except Exception:  # noqa: BLE001
                    pass
            except (AttributeError, TypeError):
                pass
            try:
                delattr(it, attr)
                bad.append(f'{type(it).__name__}.{attr} deletable')
            except (AttributeError, TypeError):
                pass
    return len(items), bad


def coord_pre(prefix_list):
    pre = []
    for t in prefix_list:
        for nm, maxi in (('c', 3), ('d', 3), ('v', 3), ('a', 4), ('b', 4), ('p', 3)):
            i, s = z3.Int(f'{t}_{nm}i'), z3.Int(f'{t}_{nm}s')
            pre += [i >= 0, i <= maxi, s >= 0]
    return pre


def explore(fn, pre, budget, args=()):
    from engine.pysymex import Explorer, SymDriver, model_values
    drv = SymDriver()
    ex = Explorer(pre, max_paths=500000, max_seconds=budget)
    paths = ex.run(lambda: fn(drv, *args))
    bad = []
    for p in paths:
        if p.kind != 'ok':
            bad.append(dict(error=f'{type(p.value).__name__}: {p.value}', picks=list(p.picks),
                            witness=model_values(ex.witness(p)), is_bad=isinstance(p.value, Bad)))
    return ex, paths, bad


def worker(part, tier, cache_size):
    """Runs inside a subprocess; prints one JSON object."""
    from engine import lexsym
    from engine.pysymex import model_values
    lexsym.install_hash_abstraction()
    out = dict(part=part, paths=0, decisions=0, queries=0, solver_time=0.0, bad=[], exhausted=True,
               samples=[], hash_checks=0, units=0)
    budget = 200 if tier == 'quick' else 900

    def absorb(ex, paths, bad, label, extra=None):
        st = ex.stats()
        out['paths'] += st['paths']
        out['decisions'] += st['decisions'] + st['picks']
        out['queries'] += st['queries']
        out['solver_time'] += st['solver_time_s']
        out['exhausted'] &= st['exhausted']
        out['units'] += 1
        for b in bad[:3]:
            b['label'] = label
            if extra:
                b.update(extra)
            out['bad'].append(b)
        if paths and len(out['samples']) < 3:
            p = paths[len(paths) // 2]
            out['samples'].append(dict(unit=label, path_condition=[str(c) for c in p.pc[:8]],
                                       outcome=str(p.value)[:80]))
    if part.startswith('kernel:'):
        la = int(part.split(':')[1])
        pre = [z3.Int(f'{t}{i}') >= 0 for t in 'abc' for i in range(3)]
        ex, paths, bad = explore(kernel_fn, pre, budget * 4, (la,))
        absorb(ex, paths, bad, f'kernel len(a)={la}', dict(kind='kernel', force_len_a=la))
    elif part.startswith('argument:'):
        _, nx, ny = part.split(':')
        pre = []
        for t in 'xy':
            for nm in ('c', 'p0', 'p1'):
                i, s = z3.Int(f'{t}{nm}_i'), z3.Int(f'{t}{nm}_s')
                pre += [i >= 0, i <= 4, s >= 0]
        ex, paths, bad = explore(argument_fn, pre, budget * 4, (int(nx), int(ny)))
        absorb(ex, paths, bad, f'argument {nx}/{ny} premises', dict(kind='argument', nxy=[int(nx), int(ny)]))
    elif part == 'kernel':
        lexsym.reset_cache()
        lexsym.remove_hash_abstraction()
        n, ibad = immutability()
        out['immutability_items'] = n
        for b in ibad:
            out['bad'].append(dict(error=b, label='immutability', kind='immutability', picks=[], witness={}))
        xitems = xproc_items()
        out['cross_process_pickles'] = len(xitems)
        for x, msg in cross_process_pickle(xitems):
            out['bad'].append(dict(error=f'pickled {x!r} loaded in another interpreter: {msg}',
                                   label=f'cross-process pickle {type(x).__name__}', kind='xpickle',
                                   picks=[], witness={}, item=repr(x)))
    elif part.startswith('items'):
        _, k, nparts = part.split(':')
        names = list(shapes())
        pairs = [(a, b) for i, a in enumerate(names) for b in names[i:]]
        pre = coord_pre(['x', 'y'])
        for idx, (n1, n2) in enumerate(pairs):
            if idx % int(nparts) != int(k):
                continue
            ex, paths, bad = explore(pair_fn, pre, budget, (n1, n2))
            absorb(ex, paths, bad, f'{n1} ~ {n2}', dict(kind='pair', names=[n1, n2]))
            # hash consistency on the witness of every path where the items are equal
            from engine.pysymex import ReplayDriver
            lexsym.remove_hash_abstraction()
            try:
                for p in paths:
                    if p.kind == 'ok' and p.value[0]:
                        wit = model_values(ex.witness(p))
                        drv = ReplayDriver(p.picks, wit)
                        sh = shapes()
                        lexsym.reset_cache()
                        x = sh[n1](drv, 'x')
                        drv2 = ReplayDriver(p.picks, wit)
                        # picks are consumed in construction order: x then y
                        drv.i = 0
                        lexsym.reset_cache()
                        drvp = ReplayDriver(p.picks, wit)
                        x = sh[n1](drvp, 'x')
                        y = sh[n2](drvp, 'y')
                        out['hash_checks'] += 1
                        if not (x == y) or hash(x) != hash(y) or x.hash != y.hash:
                            out['bad'].append(dict(
                                error=f'equal items with different hash or == differs concretely: {x!r} {y!r}',
                                label=f'{n1} ~ {n2}', kind='pair', names=[n1, n2],
                                picks=list(p.picks), witness=wit))
            finally:
                lexsym.install_hash_abstraction()
    elif part.startswith('rebuild'):
        _, k, nparts = part.split(':')
        names = list(shapes())
        fillers = ['Atomic', 'Constant', 'Fc', 'c=d', '~A']
        hist = []
        for n1 in names:
            hist.append((n1,))
            for f1 in fillers:
                hist.append((n1, f1))
        if tier != 'quick':
            for n1 in names:
                for f1 in fillers:
                    for f2 in fillers[:3]:
                        hist.append((n1, f1, f2))
        for idx, h in enumerate(hist):
            if idx % int(nparts) != int(k):
                continue
            pre = coord_pre([f'h{i}' for i in range(len(h))])
            ex, paths, bad = explore(rebuild_fn, pre, budget, (h,))
            absorb(ex, paths, bad, f'rebuild {h} cache={cache_size}',
                   dict(kind='rebuild', names=list(h), cache_size=cache_size))
            # pickle on the witness of one path per history
            if paths:
                import pickle
                from engine.pysymex import ReplayDriver
                lexsym.remove_hash_abstraction()
                try:
                    p = paths[0]
                    wit = model_values(ex.witness(p))
                    drv = ReplayDriver(p.picks, wit)
                    lexsym.reset_cache()
                    sh = shapes()
                    items = [sh[n](drv, f'h{i}') for i, n in enumerate(h)]
                    x = items[0]
                    try:
                        y = pickle.loads(pickle.dumps(x))
                        ok = (y == x) and hash(y) == hash(x)
                    except Exception as e:  # noqa: BLE001
                        ok = False
                        y = f'{type(e).__name__}: {e}'
                    out['hash_checks'] += 1
                    if not ok:
                        out['bad'].append(dict(
                            error=f'pickle round trip: {y!r} vs {x!r}', label=f'rebuild {h}',
                            kind='pickle', names=list(h), cache_size=cache_size,
                            picks=list(p.picks), witness=wit))
                finally:
                    lexsym.install_hash_abstraction()
    print('@@RESULT@@' + json.dumps(out, default=str))


def spawn(part, tier, cache_size):
    env = dict(os.environ)
    env['ITEM_CACHE_SIZE'] = str(cache_size)
    return subprocess.Popen(
        [sys.executable, '-m', 'checks.c14', '--worker', part, tier, str(cache_size)],
        env=env, stdout=subprocess.PIPE, stderr=subprocess.PIPE, text=True)


def run(ctx):
    rep = Report('C14', 'model_checking')
    tier = ctx.tier
    jobs = []
    jobs.append(('kernel', 1000))
    for la in (1, 2, 3):
        jobs.append((f'kernel:{la}', 1000))
    for nx in range(3):
        for ny in range(3):
            if nx + ny <= (2 if ctx.quick else 4):
                jobs.append((f'argument:{nx}:{ny}', 1000))
    for k in range(6):
        jobs.append((f'items:{k}:6', 1000))
    sizes = (1, 2, 3, 1000)
    for size in sizes:
        nparts = 2 if size != 1000 else 1
        for k in range(nparts):
            jobs.append((f'rebuild:{k}:{nparts}', size))
    procs = [(part, size, spawn(part, tier, size)) for part, size in jobs]
    paths = trans = queries = hash_checks = units = 0
    st_time = 0.0
    samples = []
    for part, size, p in procs:
        try:
            so, se = p.communicate(timeout=1800 if not ctx.quick else 600)
        except subprocess.TimeoutExpired:
            p.kill()
            rep.inconclusive.append(f'{part} cache={size}: worker timed out')
            continue
        line = [ln for ln in so.splitlines() if ln.startswith('@@RESULT@@')]
        if not line:
            rep.harness_error(f'{part} cache={size}: worker failed: {se[-800:]}')
            continue
        r = json.loads(line[0][len('@@RESULT@@'):])
        paths += r['paths']
        trans += r['decisions']
        queries += r['queries']
        st_time += r['solver_time']
        hash_checks += r['hash_checks']
        units += r['units']
        samples += r['samples'][:1]
        if not r['exhausted']:
            rep.inconclusive.append(f'{part} cache={size}: exploration not exhausted')
        seen = set()
        for b in r['bad']:
            err = b['error']
            short = err.split(': ', 1)[-1][:90]
            key = f'C14|{b.get("kind")}|{"~".join(b.get("names", []))}|{short}'
            if b.get('kind') in ('rebuild', 'pickle'):
                key = f'C14|{b["kind"]}|{b["names"][0]}|{short.split(" raised")[0][:60]}'
            if b.get('kind') == 'xpickle':
                key = f'C14|xpickle|{b["label"].split()[-1]}'
            if key in seen:
                continue
            seen.add(key)
            rep.violation(key, f'{b.get("label")}: {err[:300]} (witness {b.get("witness")})',
                          dict(kind=b.get('kind'), names=b.get('names'), picks=b.get('picks'),
                               force_len_a=b.get('force_len_a'), nxy=b.get('nxy'),
                               witness=b.get('witness'), cache_size=b.get('cache_size', 1000),
                               error=err))
    rep.coverage = dict(
        states=paths, transitions=trans, traces_validated_against_impl=hash_checks,
        samples=samples[:6], units=units,
        bounds=dict(kernel='3 arbitrary integer tuples of length 1..3',
                    items='all pairs of 20 item shapes, sentences to depth 2, all coordinates symbolic',
                    rebuild=f'construction histories of length <= {2 if ctx.quick else 3}, '
                            f'ITEM_CACHE_SIZE in {list(sizes)}',
                    cross_process_pickle='23 items of all types and arguments, loaded in a fresh interpreter with '
                                         'another hash seed that built an equal item first (concrete)',
                    arguments='pairs of arguments, conclusion + premises (total premises <= 2 quick, <= 4 thorough), letters with symbolic coordinates'),
        solver=dict(queries=queries, solver_time_s=round(st_time, 2)),
        functions_executed=['Lexical.orderitems/hashitem/identitem', 'rich comparison wrappers',
                            'CoordsItem.__new__', 'Predicate/Predicated/Quantified/Operated.__init__',
                            'LexicalAbcMeta.__call__ (cache, ident rebuild)', 'Argument comparison wrapper',
                            '__copy__/__deepcopy__/__getnewargs__'],
        stubs=['lexical __hash__ replaced by the type rank while coordinates are symbolic; the real '
               'hash is checked on the concrete witness of every path with equal items'],
        file_hashes=file_hashes(FILES), exhaustive=not rep.inconclusive,
        rule='paths = order/equality types of the symbolic coordinates per shape pair / history')
    rep.assumptions = ['index within the type range, subscript >= 0, arity in {1,2}']
    return rep


def replay(data):
    'Concrete reconstruction from the witness; no proxies.'
    from engine.pysymex import ReplayDriver
    kind = data['kind']
    if kind == 'immutability':
        n, bad = immutability()
        return bool(bad), f'immutability: {bad}'
    if kind == 'xpickle':
        bad = cross_process_pickle(xproc_items())
        return bool(bad), f'cross-process pickle: {[(repr(x), m) for x, m in bad][:3]}'
    if int(data.get('cache_size', 1000)) != int(os.environ.get('ITEM_CACHE_SIZE', 1000) or 0):
        env = dict(os.environ)
        env['ITEM_CACHE_SIZE'] = str(data['cache_size'])
        code = ('import json,sys; from checks import c14; d=json.loads(sys.stdin.read()); '
                'r=c14.replay(d); print(r[1]); sys.exit(1 if r[0] else 0)')
        p = subprocess.run([sys.executable, '-c', code], input=json.dumps(data), env=env,
                           capture_output=True, text=True)
        return p.returncode == 1, (p.stdout + p.stderr)[-600:]
    drv = ReplayDriver(data['picks'], data['witness'])
    try:
        if kind == 'kernel':
            kernel_fn(drv, data.get('force_len_a'))
        elif kind == 'argument':
            argument_fn(drv, *(data.get('nxy') or (None, None)))
        elif kind == 'pair':
            pair_fn(drv, *data['names'])
            from engine import lexsym
            lexsym.reset_cache()
            d2 = ReplayDriver(data['picks'], data['witness'])
            sh = shapes()
            x = sh[data['names'][0]](d2, 'x')
            y = sh[data['names'][1]](d2, 'y')
            if x == y and (hash(x) != hash(y)):
                return True, f'{x!r} == {y!r} but hashes differ'
        elif kind == 'rebuild':
            rebuild_fn(drv, tuple(data['names']))
        elif kind == 'pickle':
            import pickle
            from engine import lexsym
            lexsym.reset_cache()
            sh = shapes()
            items = [sh[n](drv, f'h{i}') for i, n in enumerate(data['names'])]
            y = pickle.loads(pickle.dumps(items[0]))
            if not (y == items[0] and hash(y) == hash(items[0])):
                return True, f'pickle round trip differs: {y!r}'
    except Bad as e:
        return True, f'{kind} {data.get("names")}: {e} with {data["witness"]}'
    except Exception as e:  # noqa: BLE001
        return True, f'{kind} {data.get("names")}: {type(e).__name__}: {e}'
    return False, f'{kind} {data.get("names")}: holds concretely with {data["witness"]}'


if __name__ == '__main__':
    if len(sys.argv) >= 5 and sys.argv[1] == '--worker':
        worker(sys.argv[2], sys.argv[3], int(sys.argv[4]))
