"""C05 -- branches close exactly when their literals are unsatisfiable.

Real side: for every logic, every kind of literal-bearing sentence (letter,
predication, uninterpreted sentence; self-identity and existence in the
classical family), every subset of the literal constraints on it, every
insertion order, at one world and split over two worlds, a real branch of a
real `Tableau` is filled and built; `Branch.closed` is read, and for open
branches the real model builder (`Model.read_branch`) is asked for the value.

Solver side: z3 decides whether *any* value (resp. interpretation: identity
reflexive, existence universal) of the specification semantics satisfies the
literal set:   closed  <=>  unsat;   and for open sets that the value read by
the model builder satisfies every constraint (query with the value fixed).
"""
from __future__ import annotations

import itertools
import multiprocessing as mp

import z3

from engine.main import Report, file_hashes
from engine.semz3 import Interp, LogicSem, Stats
from pytableaux.lang import (Atomic, Constant, Operator, Predicate, Quantifier,
                             Variable)
from pytableaux.logics import registry
from pytableaux.proof import Tableau, sdwnode
from engine.tabutil import reset_order

FILES = ['pytableaux/logics/fde.py', 'pytableaux/logics/k3.py', 'pytableaux/logics/lp.py',
         'pytableaux/logics/cpl.py', 'pytableaux/proof/rules.py', 'pytableaux/proof/helpers.py',
         'pytableaux/models/__init__.py']

A = Atomic(0, 0)
F = Predicate(0, 0, 1)
a = Constant(0, 0)
x = Variable(0, 0)


def sentence_kinds(logic):
    M = logic.Meta
    kinds = [('letter', A), ('predication', F(a))]
    if not M.modal:
        kinds.append(('opaque-modal', Operator.Possibility(A)))
    if not M.quantified:
        kinds.append(('opaque-quantified', Quantifier.Existential(x, F(x))))
    return kinds


def literal_space(logic, s):
    'All literal constraints on sentence s: list of (sentence, designation).'
    fde_style = any(getattr(r, 'designation', None) is not None for r in logic.Rules.all())
    if fde_style:
        return [(s, True), (s, False), (~s, True), (~s, False)]
    return [(s, None), (~s, None)]


def distinct_copy(s):
    '''The same sentence built from scratch with the item cache emptied before
    every constructor call: equal lexical items inside it (the two constants of
    `a = a`) and across nodes are *distinct objects*, as after a roll-over of the
    library's bounded item cache.'''
    from engine import lexsym
    from pytableaux.lang import Operated, Predicated, Quantified

    def mk(x):
        t = type(x).__name__
        if t in ('Atomic', 'Constant', 'Variable'):
            lexsym.reset_cache()
            return type(x)(*x.spec)
        if t == 'Predicate':
            if x.is_system:
                return x
            lexsym.reset_cache()
            return type(x)(*x.spec)
        if t == 'Predicated':
            params = tuple(mk(p_) for p_ in x.params)
            pred = mk(x.predicate)
            lexsym.reset_cache()
            return Predicated(pred, params)
        if t == 'Quantified':
            v = mk(x.variable)
            body = mk(x.sentence)
            lexsym.reset_cache()
            return Quantified(x.quantifier, v, body)
        ops = tuple(mk(o) for o in x.operands)
        lexsym.reset_cache()
        return Operated(x.operator, ops)
    out = mk(s)
    lexsym.reset_cache()
    assert out == s and hash(out) == hash(s)
    return out


def run_branch(logic, nodes):
    reset_order()
    tab = Tableau(logic)
    branch = tab.branch()
    for n in nodes:
        if branch.closed:
            break
        branch.append(n)
        # closure rules are applied by the step loop
    tab.build()
    return tab, branch


def logic_unit(name):
    registry.import_all()
    logic = registry(name)
    S = LogicSem(name)
    stats = Stats()
    modal = bool(logic.Meta.modal)
    out = dict(logic=name, sets=0, runs=0, bad=[], model_checks=0, samples=[], unknown=0)
    classical = S.info['classical']
    shared_ok = not any(r.name == 'Serial' for r in logic.Rules.all())
    kinds = sentence_kinds(logic)
    if classical:
        kinds += [('self-identity', Predicate.Identity((a, a))),
                  ('existence', Predicate.Existence(a)),
                  # identity between two constants that share the index / the subscript
                  ('identity-same-index', Predicate.Identity((a, Constant(0, 1)))),
                  ('identity-same-subscript', Predicate.Identity((Constant(1, 0), a))),
                  ('self-identity-subscripted', Predicate.Identity((Constant(2, 3), Constant(2, 3))))]
    for kname, s in kinds:
        space = literal_space(logic, s)
        extra_sets = [()]
        if classical and kname in ('self-identity', 'existence'):
            # together with an unrelated literal
            extra_sets.append(((A, None),))
        world_assignments = [None]
        for r in range(len(space) + 1):
            for subset in itertools.combinations(range(len(space)), r):
                lits = [space[i] for i in subset]
                assigns = [tuple([0] * len(lits))] if modal else [tuple([None] * len(lits))]
                if modal and len(lits) >= 2:
                    assigns += [t for t in itertools.product((0, 1), repeat=len(lits)) if any(t)]
                for extra in extra_sets:
                    for ws in assigns:
                        out['sets'] += 1
                        all_lits = list(zip(lits, ws)) + [(e, (0 if modal else None)) for e in extra]
                        # --- solver: satisfiable?
                        I = Interp(S, 'spec', W=2 if modal else 1, K=2 if kname.startswith('identity-') else 1)
                        terms = []
                        for (sent, d), w in all_lits:
                            u = 0 if w is None else w
                            des = I.des(sent, u)
                            terms.append(des if (d is None or d) else z3.Not(des))
                        solver = z3.Solver()
                        solver.add(*I.constraints())
                        solver.add(*terms)
                        r_ = stats.check(solver)
                        if r_ == z3.unknown:
                            out['unknown'] += 1
                            continue
                        satisfiable = r_ == z3.sat
                        # --- real branch, every insertion order
                        nodes_base = [sdwnode(sent, d, w) for (sent, d), w in all_lits]
                        orders = list(itertools.permutations(range(len(nodes_base))))
                        closed_seen = set()
                        # one real tableau per literal set: every insertion order is
                        # a separate root branch of it (the first order also gets a
                        # tableau of its own, to guard against cross-branch effects)
                        branches = []
                        if shared_ok:
                            reset_order()
                            tab = Tableau(logic)
                            for order in orders:
                                branch = tab.branch()
                                for i in order:
                                    if branch.closed:
                                        break
                                    branch.append(sdwnode(all_lits[i][0][0], all_lits[i][0][1], all_lits[i][1]))
                                branches.append(branch)
                            tab.build()
                        else:
                            # the serial rule alternates for ever between several
                            # root branches: one tableau per order there
                            for order in orders:
                                branches.append(run_branch(logic, [
                                    sdwnode(all_lits[i][0][0], all_lits[i][0][1], all_lits[i][1])
                                    for i in order])[1])
                        solo_tab, solo = run_branch(logic, [
                            sdwnode(all_lits[i][0][0], all_lits[i][0][1], all_lits[i][1]) for i in orders[0]])
                        # closure must depend on the literals' values, not on object identity
                        _, solo_d = run_branch(logic, [
                            sdwnode(distinct_copy(all_lits[i][0][0]), all_lits[i][0][1], all_lits[i][1])
                            for i in orders[0]])
                        out['runs'] += 1
                        if bool(solo_d.closed) != bool(solo.closed):
                            out['bad'].append(dict(
                                kind='closure', sentence_kind=kname + '/distinct-objects',
                                literals=[[str(all_lits[i][0][0]), all_lits[i][0][1], all_lits[i][1]] for i in orders[0]],
                                closed=bool(solo_d.closed), satisfiable=bool(solo_d.closed), distinct=True,
                                spec=[[list(_ident(all_lits[i][0][0])), all_lits[i][0][1], all_lits[i][1]]
                                      for i in orders[0]]))
                        if bool(solo.closed) != bool(branches[0].closed):
                            out['bad'].append(dict(
                                kind='closure', sentence_kind=kname,
                                literals=[[str(all_lits[i][0][0]), all_lits[i][0][1], all_lits[i][1]] for i in orders[0]],
                                closed=bool(solo.closed), satisfiable=bool(solo.closed),
                                spec=[[list(_ident(all_lits[i][0][0])), all_lits[i][0][1], all_lits[i][1]]
                                      for i in orders[0]]))
                        for order, branch in zip(orders, branches):
                            out['runs'] += 1
                            closed = bool(branch.closed)
                            closed_seen.add(closed)
                            desc = [[str(all_lits[i][0][0]), all_lits[i][0][1], all_lits[i][1]] for i in order]
                            if closed == satisfiable:
                                out['bad'].append(dict(
                                    kind='closure', sentence_kind=kname, literals=desc,
                                    closed=closed, satisfiable=satisfiable,
                                    spec=[[list(_ident(all_lits[i][0][0])), all_lits[i][0][1], all_lits[i][1]]
                                          for i in order]))
                                break
                            if not closed:
                                # model builder's value must satisfy every literal
                                try:
                                    model = logic.Model()
                                    model.read_branch(branch)
                                    bad_lit = None
                                    for (sent, d), w in all_lits:
                                        kw = {'world': w} if modal else {}
                                        v = model.value_of(sent, **kw)
                                        isdes = v in logic.Meta.designated_values
                                        # the same judgement by the solver with the base value fixed
                                        out['model_checks'] += 1
                                        want = True if d is None else d
                                        if isdes != want:
                                            bad_lit = [str(sent), d, w, str(v)]
                                            break
                                    if bad_lit is None:
                                        # value of the base sentence must be a solution of the solver's query
                                        solver.push()
                                        for (sent, d), w in all_lits:
                                            base_s = sent.lhs if (type(sent).__name__ == 'Operated' and sent.operator.name == 'Negation') else sent
                                            kw = {'world': w} if modal else {}
                                            v = model.value_of(base_s, **kw)
                                            if S.info['classical'] and type(base_s).__name__ == 'Predicated' and base_s.predicate.is_system:
                                                continue
                                            solver.add(I.value(base_s, 0 if w is None else w) == S.idx[v.name])
                                        r2 = stats.check(solver)
                                        solver.pop()
                                        if r2 != z3.sat:
                                            bad_lit = ['model value is not a solution in the specification semantics']
                                    if bad_lit is not None:
                                        out['bad'].append(dict(
                                            kind='model', sentence_kind=kname, literals=desc,
                                            detail=bad_lit,
                                            spec=[[list(_ident(all_lits[i][0][0])), all_lits[i][0][1], all_lits[i][1]]
                                                  for i in order]))
                                        break
                                except Exception as e:  # noqa: BLE001
                                    out['bad'].append(dict(
                                        kind='model', sentence_kind=kname, literals=desc,
                                        detail=[f'{type(e).__name__}: {e}'],
                                        spec=[[list(_ident(all_lits[i][0][0])), all_lits[i][0][1], all_lits[i][1]]
                                              for i in order]))
                                    break
                        if len(out['samples']) < 2 and len(all_lits) >= 2:
                            out['samples'].append(dict(
                                logic=name, literals=[[str(l[0][0]), l[0][1], l[1]] for l in all_lits],
                                satisfiable=satisfiable, closed=sorted(closed_seen),
                                orders=len(orders)))
    out['stats'] = stats.asdict()
    return out


def _ident(s):
    def conv(t):
        if isinstance(t, tuple):
            return [conv(x) for x in t]
        return t
    return conv(s.ident)


def run(ctx):
    rep = Report('C05', 'proof')
    registry.import_all()
    names = sorted(registry(n).Meta.name for n in registry.all())
    with mp.Pool(min(ctx.jobs, len(names))) as pool:
        results = pool.map(logic_unit, names, chunksize=1)
    stats = Stats()
    sets = runs = model_checks = 0
    bad_total = 0
    samples = []
    for r in results:
        stats.merge(r['stats'])
        sets += r['sets']
        runs += r['runs']
        model_checks += r['model_checks']
        samples += r['samples'][:1]
        if r['unknown']:
            rep.inconclusive.append(f'{r["logic"]}: {r["unknown"]} z3 unknown')
        seen = set()
        for b in r['bad']:
            lits = ','.join(f'{l[0]}{ {True: "+", False: "-", None: ""}[l[1]]}@{l[2]}' for l in sorted(b['literals'], key=str))
            key = f'C05|{r["logic"]}|{b["kind"]}|{b["sentence_kind"]}|{lits}'
            if key in seen:
                continue
            seen.add(key)
            bad_total += 1
            if b['kind'] == 'closure':
                what = (f'{r["logic"]}: literal set {b["literals"]} is '
                        f'{"satisfiable" if b["satisfiable"] else "unsatisfiable"} but the branch is '
                        f'{"closed" if b["closed"] else "open"}')
            else:
                what = f'{r["logic"]}: model read from open literal set {b["literals"]}: {b["detail"]}'
            rep.violation(key, what, dict(kind=b['kind'], logic=r['logic'], lits=b['spec'],
                                          expect_satisfiable=b.get('satisfiable'),
                                          distinct=b.get('distinct', False)))
    rep.coverage = dict(
        obligations=sets, discharged=sets - bad_total,
        checker_cmd=f'z3 {z3.get_version_string()} (python API)',
        trusted_base=['z3', 'engine/semz3.py Interp', 'spec/tables.py'],
        real_branch_runs=runs, model_builder_value_checks=model_checks, logics=len(results),
        bounds='one sentence per literal set (letter / predication / uninterpreted; self-identity '
               'and existence in the classical family, alone and next to an unrelated literal); '
               '<= 2 worlds; all subsets, all insertion orders; each set once more with every lexical item '
               'a distinct object (item cache emptied between constructor calls)',
        functions_encoded=['closure rules of each logic (run)', 'BranchTarget/BranchValueHook (run)',
                           'BaseModel.read_branch/_read_node (run)', 'Model.value_of (run)'],
        file_hashes=file_hashes(FILES), solver=stats.asdict(), samples=samples[:6],
        exhaustive=not rep.inconclusive)
    rep.assumptions = ['oracle: spec/tables.py', 'identity reflexive, existence universal (classical family)']
    return rep


def replay(data):
    from pytableaux.lang import Sentence
    from spec import tables as spec
    registry.import_all()
    logic = registry(data['logic'])
    info = spec.logic_info(data['logic'])
    modal = bool(logic.Meta.modal)

    def tup(x):
        return tuple(tup(y) for y in x) if isinstance(x, list) else x
    lits = [(Sentence(tup(i)), d, w) for i, d, w in data['lits']]
    nodes = [sdwnode(distinct_copy(s) if data.get('distinct') else s, d, w) for s, d, w in lits]
    tab, branch = run_branch(logic, nodes)
    closed = bool(branch.closed)
    # brute-force satisfiability in the specification semantics (plain Python)
    base = info['base']
    vals = spec.values(base)
    des = spec.designated(base)
    neg = spec.op(base, 'Negation')
    worlds = sorted({w for _, _, w in lits}, key=lambda z: -1 if z is None else z)

    def lit_ok(s, d, v):
        if type(s).__name__ == 'Operated' and s.operator.name == 'Negation':
            inner = s.lhs
            val = neg(base_value(inner, v))
        else:
            val = base_value(s, v)
        isdes = val in des
        return isdes if (d is None or d) else not isdes

    def base_value(s, v):
        if info['classical'] and type(s).__name__ == 'Predicated' and s.predicate.is_system:
            if s.predicate.name == 'Identity' and s.params[0] != s.params[1]:
                return v        # two constants may or may not denote the same thing
            return 'T'
        return v
    satisfiable = True
    for w in worlds:
        here = [(s, d) for s, d, w2 in lits if w2 == w]
        # all literals are over one base sentence (plus possibly system predicates / A)
        ok = False
        for v in vals:
            for v2 in vals:
                def val_for(s):
                    b = s.lhs if (type(s).__name__ == 'Operated' and s.operator.name == 'Negation') else s
                    return v if type(b).__name__ != 'Atomic' else v2
                if all(lit_ok(s, d, val_for(s)) for s, d in here):
                    ok = True
        satisfiable = satisfiable and ok
    if data['kind'] == 'closure':
        return closed == satisfiable, f'closed={closed} satisfiable={satisfiable}'
    if closed:
        return False, 'branch closed in replay'
    model = logic.Model()
    try:
        model.read_branch(branch)
        for s, d, w in lits:
            kw = {'world': w} if modal else {}
            v = model.value_of(s, **kw)
            isdes = v in logic.Meta.designated_values
            if isdes != (True if d is None else d):
                return True, f'model gives {s} the value {v} at {w}, literal wants designated={d}'
    except Exception as e:  # noqa: BLE001
        return True, f'model builder raised {type(e).__name__}: {e}'
    return False, 'model satisfies all literals in replay'
