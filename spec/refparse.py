"""Reference parsers for the two notations, written from the documented grammar
(doc/ notation tables) with no code shared with pytableaux.  They return
*ident trees* (see spec/walker.py) or raise `Reject`.

Documented grammar (both notations):
  * whitespace may appear between any two symbols, also between the digits of
    a subscript; a subscript is a maximal run of digits (default 0);
  * a letter / constant / variable / predicate symbol is a table character
    followed by an optional subscript;
  * a predicate is followed by exactly `arity` parameters; an undeclared
    predicate takes as many parameters as follow (at least one) and is thereby
    declared (first use fixes the arity);
  * a variable may only occur inside the scope of a quantifier binding it, a
    quantifier may not re-bind a variable that is already bound, and its
    variable must occur in its scope;
  * the whole input must be consumed.
Polish: prefix operators.  Standard: unary operators are prefix; a binary
sentence is `( lhs op rhs )`; predicates may be written prefix `Fab` or infix
`aFb` (arity >= 2), identity / existence are predicates `=`, `!`; the outermost
parentheses may be dropped.
"""
from __future__ import annotations


class Reject(Exception):
    pass


def _tables(notation):
    digits = {str(i): i for i in range(10)}
    if notation == 'polish':
        ops = dict(T=('Assertion', 1), N=('Negation', 1), K=('Conjunction', 2), A=('Disjunction', 2),
                   C=('MaterialConditional', 2), E=('MaterialBiconditional', 2), U=('Conditional', 2),
                   B=('Biconditional', 2), M=('Possibility', 1), L=('Necessity', 1))
        quants = dict(S='Existential', V='Universal')
        system = dict(J=((-2, 0, 1)), I=((-1, 0, 2)))
        variables = dict(zip('xyzv', range(4)))
        constants = dict(zip('mnos', range(4)))
        preds = dict(zip('FGHO', range(4)))
        atomics = dict(zip('abcde', range(5)))
        parens = None
    else:
        ops = {'*': ('Assertion', 1), '~': ('Negation', 1), '&': ('Conjunction', 2), 'V': ('Disjunction', 2),
               '>': ('MaterialConditional', 2), '<': ('MaterialBiconditional', 2), '$': ('Conditional', 2),
               '%': ('Biconditional', 2), 'P': ('Possibility', 1), 'N': ('Necessity', 1)}
        quants = dict(X='Existential', L='Universal')
        system = {'!': (-2, 0, 1), '=': (-1, 0, 2)}
        variables = dict(zip('xyzv', range(4)))
        constants = dict(zip('abcd', range(4)))
        preds = dict(zip('FGHO', range(4)))
        atomics = dict(zip('ABCDE', range(5)))
        parens = ('(', ')')
    return dict(ops=ops, quants=quants, system=system, variables=variables, constants=constants,
                preds=preds, atomics=atomics, digits=digits, parens=parens)


class Reader:

    def __init__(self, text, tables, store):
        self.t = text
        self.n = len(text)
        self.pos = 0
        self.T = tables
        self.store = store          # dict (index, subscript) -> arity ; mutated on first use
        self.bound = []

    def cur(self):
        if self.pos >= self.n:
            return None
        return str(self.t[self.pos])

    def ws(self):
        while self.cur() == ' ':
            self.pos += 1

    def adv(self):
        self.pos += 1
        self.ws()

    def subscript(self):
        ds = ''
        while self.cur() is not None and self.cur() in self.T['digits']:
            ds += self.cur()
            self.adv()
        return int(ds) if ds else 0

    def coords(self, table):
        i = table[self.cur()]
        self.adv()
        return (i, self.subscript())

    def parameter(self):
        c = self.cur()
        if c is None:
            raise Reject('end of input, parameter expected')
        if c in self.T['constants']:
            return ('Constant', self.coords(self.T['constants']))
        if c in self.T['variables']:
            v = self.coords(self.T['variables'])
            if v not in self.bound:
                raise Reject(f'unbound variable {v}')
            return ('Variable', v)
        raise Reject(f'parameter expected at {self.pos}')

    def is_param(self):
        c = self.cur()
        return c is not None and (c in self.T['constants'] or c in self.T['variables'])


def _variables(ident):
    from . import walker
    return [p[1] for p in walker.params(ident) if p[0] == 'Variable']


def _sentence(r: Reader, standard: bool):
    T = r.T
    c = r.cur()
    if c is None:
        raise Reject('unexpected end of input')
    if c in T['ops']:
        name, arity = T['ops'][c]
        if standard and arity != 1:
            raise Reject('binary operator in prefix position')
        r.adv()
        return ('Operated', (name, tuple(_sentence(r, standard) for _ in range(arity))))
    if c in T['atomics']:
        return ('Atomic', r.coords(T['atomics']))
    if c in T['quants']:
        q = T['quants'][c]
        r.adv()
        c2 = r.cur()
        if c2 is None or c2 not in T['variables']:
            raise Reject('variable expected after quantifier')
        v = r.coords(T['variables'])
        if v in r.bound:
            raise Reject(f'variable {v} re-bound')
        r.bound.append(v)
        body = _sentence(r, standard)
        if v not in _variables(body):
            raise Reject(f'bound variable {v} does not occur in its scope')
        r.bound.remove(v)
        return ('Quantified', (q, v, body))
    if c in T['preds'] or c in T['system']:
        return _predicated(r, None)
    if standard and c == T['parens'][0]:
        r.adv()
        lhs = _sentence(r, standard)
        r.ws()
        o = r.cur()
        if o is None or o not in T['ops'] or T['ops'][o][1] != 2:
            raise Reject('binary operator expected')
        r.adv()
        rhs = _sentence(r, standard)
        r.ws()
        if r.cur() != T['parens'][1]:
            raise Reject('closing parenthesis expected')
        r.adv()
        return ('Operated', (T['ops'][o][0], (lhs, rhs)))
    if standard and (c in T['constants'] or c in T['variables']):
        first = r.parameter()
        c2 = r.cur()
        if c2 is None or not (c2 in T['preds'] or c2 in T['system']):
            raise Reject('predicate expected after a leading parameter')
        return _predicated(r, first)
    raise Reject(f'unexpected symbol {c!r} at {r.pos}')


def _predicated(r: Reader, first):
    'prefix (first is None) or infix (first = leading parameter) predication'
    T = r.T
    c = r.cur()
    if c in T['system']:
        spec = T['system'][c]
        r.adv()
        arity = spec[2]
        known = True
    else:
        sym = r.coords(T['preds'])
        known = sym in r.store
        arity = r.store.get(sym)
        spec = None
    if known:
        if first is not None and arity < 2:
            raise Reject('infix use of a unary predicate')
        params = ([first] if first is not None else [])
        while len(params) < arity:
            params.append(r.parameter())
        if spec is None:
            spec = (*sym, arity)
        return ('Predicated', (spec, tuple(params)))
    params = ([first] if first is not None else [])
    while r.is_param():
        params.append(r.parameter())
    arity = len(params)
    if arity < (2 if first is not None else 1):
        raise Reject('undeclared predicate without enough parameters')
    r.store[sym] = arity
    return ('Predicated', ((*sym, arity), tuple(params)))


def parse(notation: str, text, store: dict):
    """Parse `text` (a str or any indexable sequence of characters).
    `store`: {(index, subscript): arity}; mutated like the documented
    first-use declaration (also by a parse that fails later).  Returns an ident
    tree or raises Reject."""
    T = _tables(notation)
    standard = notation == 'standard'

    def attempt(seq):
        r = Reader(seq, T, store)
        r.ws()
        s = _sentence(r, standard)
        r.ws()
        if r.pos < r.n:
            raise Reject(f'trailing input at {r.pos}')
        return s
    try:
        return attempt(text)
    except Reject as first:
        if not standard:
            raise
        wrapped = ['('] + [text[i] for i in range(len(text))] + [')']
        try:
            return attempt(wrapped)
        except Reject:
            raise first
