"""Plain-Python reference evaluator of sentences in a concrete interpretation
(no z3, no pytableaux model code).  Used to replay solver counterexamples and
as the oracle side of model checks.

An interpretation is a dict:

    worlds   list of ints (model worlds 0..W-1)
    R        set of (i, j) pairs
    K        number of domain elements (0..K-1)
    den      {constant spec (index, subscript): element}
    wden     {branch world number: model world}          (optional)
    A        {(atomic spec, world): value letter}
    P        {(predicate spec, element tuple, world): value letter}
    O        {(sentence ident, world): value letter}     (opaque sentences)

Missing entries take the logic's documented unassigned value.
Sentences are walked through their public attributes only.
"""
from __future__ import annotations

from . import tables as T


def _free_variables(s):
    tn = type(s).__name__
    if tn == 'Quantified':
        return _free_variables(s.sentence) - {s.variable}
    if tn == 'Operated':
        out = set()
        for x in s.operands:
            out |= _free_variables(x)
        return out
    return set(s.variables)


class Evaluator:

    def __init__(self, logic_name: str, interp: dict, tables=None):
        self.info = T.logic_info(logic_name)
        self.base = self.info['base']
        self.I = interp
        self.un = T.UNASSIGNED[self.base]
        self.worlds = list(interp.get('worlds') or [0])
        self.R = {tuple(p) for p in interp.get('R', ())}
        self.K = interp.get('K', 1)
        self.tables = tables  # optional override: {opname: {tuple: value}}

    def _op(self, name, *args):
        if self.tables is not None:
            return self.tables[name][tuple(args)]
        return T.op(self.base, name)(*args)

    def opaque(self, s):
        tn = type(s).__name__
        if tn == 'Quantified' and self.info['quant'] is None:
            return True
        if tn == 'Operated' and s.operator.name in ('Possibility', 'Necessity') and self.info['frame'] is None:
            return True
        return False

    def value(self, s, w=0, env=None):
        I = self.I
        if self.opaque(s):
            fv = _free_variables(s)
            if fv:
                inst = tuple((tuple(v.spec), (env or {}).get(v)) for v in sorted(fv))
                return I.get('O', {}).get((s.ident, inst, w), self.un)
            return I.get('O', {}).get((s.ident, w), self.un)
        tn = type(s).__name__
        if tn == 'Atomic':
            return I.get('A', {}).get((tuple(s.spec), w), self.un)
        if tn == 'Predicated':
            elems = []
            for p in s.params:
                if type(p).__name__ == 'Constant':
                    elems.append(I.get('den', {}).get(tuple(p.spec), 0))
                else:
                    elems.append(env[p])
            pred = s.predicate
            if self.info['classical'] and pred.is_system:
                if pred.name == 'Identity':
                    # a per-world relation given by the interpretation
                    # (equivalence + congruence are checked by `frame_ok`)
                    if elems[0] == elems[1]:
                        return 'T'
                    return I.get('P', {}).get((tuple(pred.spec), tuple(elems), w), 'F')
                return 'T'
            return I.get('P', {}).get((tuple(pred.spec), tuple(elems), w), self.un)
        if tn == 'Operated':
            name = s.operator.name
            if name in ('Possibility', 'Necessity'):
                vals = [self.value(s.lhs, v, env) for v in self.worlds if (w, v) in self.R]
                kind = 'E' if name == 'Possibility' else 'A'
                return T.generalize(self.base, self.info['modal_flavour'], kind, vals)
            return self._op(name, *[self.value(x, w, env) for x in s.operands])
        if tn == 'Quantified':
            vals = []
            for e in range(self.K):
                env2 = dict(env or {})
                env2[s.variable] = e
                vals.append(self.value(s.sentence, w, env2))
            kind = 'E' if s.quantifier.name == 'Existential' else 'A'
            return T.generalize(self.base, self.info['quant'], kind, vals)
        raise NotImplementedError(tn)

    def designated(self, s, w=0):
        return self.value(s, w) in T.designated(self.base)

    def sat_node(self, node):
        get = node.get
        wd = self.I.get('wden', {})

        def mw(x):
            if x is None:
                return 0
            return wd.get(int(x), wd.get(str(int(x)), 0 if int(x) == 0 else None))
        if get('world1') is not None and get('world2') is not None:
            return (mw(node['world1']), mw(node['world2'])) in self.R
        s = get('sentence')
        if s is None:
            return True
        d = get('designated')
        des = self.designated(s, mw(get('world')))
        return des if (d is None or d is True) else not des

    def frame_ok(self):
        if not T.frame_ok(self.info['frame'], self.worlds, self.R):
            return False
        if self.info['classical']:
            return self.identity_ok()
        return True

    def identity_ok(self):
        'identity entries of the interpretation: equivalence, and extensions respect it'
        P = self.I.get('P', {})
        ident = (-1, 0, 2)

        def Id(a, b, w):
            return a == b or P.get((ident, (a, b), w), 'F') == 'T'
        for w in self.worlds:
            for a in range(self.K):
                for b in range(self.K):
                    if Id(a, b, w) != Id(b, a, w):
                        return False
                    for c in range(self.K):
                        if Id(a, b, w) and Id(b, c, w) and not Id(a, c, w):
                            return False
            for (pspec, tup, w2), v in P.items():
                if w2 != w or tuple(pspec) == ident or tuple(pspec)[0] < 0:
                    continue
                for pos in range(len(tup)):
                    for b in range(self.K):
                        if b != tup[pos] and Id(tup[pos], b, w):
                            other = tup[:pos] + (b,) + tup[pos + 1:]
                            if P.get((tuple(pspec), other, w), self.un) != v:
                                return False
        return True


def interp_from_z3(I, model):
    'Concrete interpretation dict from an engine.semz3.Interp and a z3 model.'
    import z3
    out = dict(worlds=list(range(I.W)), K=I.K, R=set(), den={}, wden={}, A={}, P={}, O={})
    names = I.S.names
    for key, var in I.vars.items():
        v = model.eval(var, model_completion=True)
        k0 = key[0]
        if k0 == 'R':
            if z3.is_true(v):
                out['R'].add((key[1], key[2]))
        elif k0 == 'den':
            out['den'][tuple(key[1])] = v.as_long()
        elif k0 == 'wden':
            out['wden'][key[1]] = v.as_long()
        elif k0 == 'A':
            out['A'][(tuple(key[1]), key[2])] = names[v.as_long()]
        elif k0 == 'O':
            if len(key) == 4:
                inst = tuple((tuple(vs), e) for vs, e in key[2])
                out['O'][(key[1], inst, key[3])] = names[v.as_long()]
            else:
                out['O'][(key[1], key[2])] = names[v.as_long()]
        elif k0 == 'P':
            out['P'][(tuple(key[1]), tuple(key[2]), key[3])] = names[v.as_long()]
    return out


def interp_to_json(interp):
    return dict(
        worlds=interp['worlds'], K=interp['K'], R=sorted(map(list, interp['R'])),
        den=[[list(k), v] for k, v in interp['den'].items()],
        wden=[[k, v] for k, v in interp['wden'].items()],
        A=[[list(k[0]), k[1], v] for k, v in interp['A'].items()],
        P=[[list(k[0]), list(k[1]), k[2], v] for k, v in interp['P'].items()],
        O=[[_identjson(k[0]), *[_identjson(x) for x in k[1:]], v] for k, v in interp['O'].items()])


def _identjson(ident):
    if isinstance(ident, tuple):
        return [_identjson(x) for x in ident]
    return ident


def _identtuple(x):
    if isinstance(x, list):
        return tuple(_identtuple(y) for y in x)
    return x


def interp_from_json(d):
    return dict(
        worlds=d['worlds'], K=d['K'], R={tuple(p) for p in d['R']},
        den={tuple(k): v for k, v in d['den']},
        wden={int(k): v for k, v in d['wden']},
        A={(tuple(a), w): v for a, w, v in d['A']},
        P={(tuple(p), tuple(e), w): v for p, e, w, v in d['P']},
        O={tuple(_identtuple(x) for x in row[:-1]): row[-1] for row in d['O']})
