"""Independent semantic specification of the logics (the oracle of DESIGN.md
section 4).  Plain Python, no import from pytableaux, no z3.

Truth values are one-letter strings 'F', 'N', 'B', 'T'.  A *base* is the
truth-functional core of a logic; every registered logic maps to a base and,
if modal, to a frame condition.

Sources, per base (checked against the code's tables at every run by C07;
every difference must be a reported finding):

* CPL/CFOL  classical two-valued tables.
* FDE       Belnap-Dunn four-valued lattice (Belnap 1977; Priest, INCL 2nd
            ed., ch. 8): T top, F bottom, N and B incomparable, so
            N & B = F and N v B = T.  Negation fixes N and B.
* K3        strong Kleene (Kleene 1952), LP Priest 1979: restrictions of FDE
            to {F,N,T} / {F,B,T}; linear orders F<N<T, F<B<T.
* L3        Lukasiewicz: K3 plus a -> b = T if a<=b, N if a-b is one step, F.
* RM3       LP plus a -> b = F if a>b, B if a=b=B, T otherwise.
* K3W       weak Kleene (Bochvar internal): N is infectious for &, v.
* B3E       Bochvar external: K3W plus assertion *a = T iff a=T else F;
            conditional on asserted operands.
* G3        Goedel three-valued: ~a = T iff a=F else F; a -> b = T if a<=b
            else b.
* P3        Post: cyclic negation T->N->F->T; v = max; a & b = ~(~a v ~b).
* MH, NH    Caret's hybrid logics as described in doc/logics/mh.rst, nh.rst:
            MH: K3 but N v N = F; a -> b = F iff a=T and b!=T, else T.
            NH: LP but B & B = T; a -> b = F iff a!=F and b=F, else T.
* GO        doc/logics/go.rst: & and v on "crunched" (asserted) operands,
            *A := A & A, A $ B := (A > B) v (~(A v ~A) & ~(B v ~B)).

Defined operators are given by their definitions (doc/logics/include/
material_defines.rst, bicond_define.rst): A > B := ~A v B,
A < B := (A > B) & (B > A), A % B := (A $ B) & (B $ A); the Conditional is the
material one unless the logic has a native one; Assertion is transparent
unless native (B3E, GO).
"""
from __future__ import annotations

from itertools import product

OPERATORS_1 = ('Assertion', 'Negation')
OPERATORS_2 = (
    'Conjunction', 'Disjunction', 'MaterialConditional',
    'MaterialBiconditional', 'Conditional', 'Biconditional')
OPERATORS = OPERATORS_1 + OPERATORS_2

ORD2 = 'FT'
ORD3N = 'FNT'
ORD3B = 'FBT'
ORD4 = 'FNBT'


def _neg_std(a):
    return {'F': 'T', 'T': 'F'}.get(a, a)


def _lin(order):
    r = {v: i for i, v in enumerate(order)}

    def conj(a, b):
        return a if r[a] <= r[b] else b

    def disj(a, b):
        return a if r[a] >= r[b] else b
    return conj, disj


def _meet4(a, b):
    'Belnap-Dunn lattice meet (truth order): N and B are incomparable.'
    if a == b:
        return a
    if 'T' in (a, b):
        return a if b == 'T' else b
    return 'F'


def _join4(a, b):
    if a == b:
        return a
    if 'F' in (a, b):
        return a if b == 'F' else b
    return 'T'


def _mk(values, neg, conj, disj, assertion=None, cond=None):
    assertion = assertion or (lambda a: a)

    def mcond(a, b):
        return disj(neg(a), b)
    cd = cond or mcond
    return dict(
        values=values,
        Assertion=assertion,
        Negation=neg,
        Conjunction=conj,
        Disjunction=disj,
        MaterialConditional=mcond,
        MaterialBiconditional=lambda a, b: conj(mcond(a, b), mcond(b, a)),
        Conditional=cd,
        Biconditional=lambda a, b: conj(cd(a, b), cd(b, a)))


_k3c, _k3d = _lin(ORD3N)
_lpc, _lpd = _lin(ORD3B)
_cc, _cd = _lin(ORD2)


def _weak(f):
    return lambda a, b: 'N' if 'N' in (a, b) else f(a, b)


def crunch(a):
    "Bochvar's external assertion: T stays T, everything else is F."
    return 'T' if a == 'T' else 'F'


BASES: dict[str, dict] = {}
BASES['CPL'] = _mk(ORD2, _neg_std, _cc, _cd)
BASES['FDE'] = _mk(ORD4, _neg_std, _meet4, _join4)
BASES['K3'] = _mk(ORD3N, _neg_std, _k3c, _k3d)
BASES['LP'] = _mk(ORD3B, _neg_std, _lpc, _lpd)
BASES['L3'] = _mk(
    ORD3N, _neg_std, _k3c, _k3d,
    cond=lambda a, b: (
        'T' if ORD3N.index(a) <= ORD3N.index(b) else
        'N' if ORD3N.index(a) - ORD3N.index(b) == 1 else 'F'))
BASES['RM3'] = _mk(
    ORD3B, _neg_std, _lpc, _lpd,
    cond=lambda a, b: (
        'F' if ORD3B.index(a) > ORD3B.index(b) else
        'B' if a == b == 'B' else 'T'))
BASES['K3W'] = _mk(ORD3N, _neg_std, _weak(_k3c), _weak(_k3d))
_b3e = _mk(ORD3N, _neg_std, _weak(_k3c), _weak(_k3d), assertion=crunch)
_b3e['Conditional'] = lambda a, b: _k3d(_neg_std(crunch(a)), crunch(b))
_b3e['Biconditional'] = lambda a, b: _k3c(
    _b3e['Conditional'](a, b), _b3e['Conditional'](b, a))
BASES['B3E'] = _b3e
BASES['G3'] = _mk(
    ORD3N, lambda a: 'T' if a == 'F' else 'F', _k3c, _k3d,
    cond=lambda a, b: 'T' if ORD3N.index(a) <= ORD3N.index(b) else b)
BASES['MH'] = _mk(
    ORD3N, _neg_std, _k3c,
    lambda a, b: 'F' if a == b == 'N' else _k3d(a, b),
    cond=lambda a, b: 'F' if a == 'T' and b != 'T' else 'T')
BASES['NH'] = _mk(
    ORD3B, _neg_std,
    lambda a, b: 'T' if a == b == 'B' else _lpc(a, b),
    _lpd,
    cond=lambda a, b: 'F' if a != 'F' and b == 'F' else 'T')


def _goc(a, b):
    return _k3c(crunch(a), crunch(b))


def _god(a, b):
    return _k3d(crunch(a), crunch(b))


_go = _mk(ORD3N, _neg_std, _goc, _god, assertion=crunch)
# A $ B := (A > B) v (~(A v ~A) & ~(B v ~B))
_go['Conditional'] = lambda a, b: _god(
    _go['MaterialConditional'](a, b),
    _goc(_neg_std(_god(a, _neg_std(a))), _neg_std(_god(b, _neg_std(b)))))
_go['Biconditional'] = lambda a, b: _goc(
    _go['Conditional'](a, b), _go['Conditional'](b, a))
BASES['GO'] = _go
_pneg = {'T': 'N', 'N': 'F', 'F': 'T'}.__getitem__
BASES['P3'] = _mk(
    ORD3N, _pneg, lambda a, b: _pneg(_k3d(_pneg(a), _pneg(b))), _k3d)

DESIGNATED = {b: 'T' for b in BASES}
DESIGNATED.update(FDE='BT', LP='BT', RM3='BT', NH='BT')

# value the documentation gives to a letter/predication the model says
# nothing about ("unassigned")
UNASSIGNED = dict(
    CPL='F', FDE='N', K3='N', LP='F', L3='N', RM3='F', K3W='N', B3E='N',
    G3='N', MH='N', NH='F', GO='N', P3='N')

# ---------------------------------------------------------------------------
# logic name -> (base, quantifier flavour, frame condition, flags)
# ---------------------------------------------------------------------------

FRAME_PREFIX = (('S5', 's5'), ('S4', 's4'), ('T', 'reflexive'), ('D', 'serial'), ('K', 'none'))

_NONMODAL = dict(
    CPL=('CPL', None), CFOL=('CPL', 'std'), FDE=('FDE', 'lattice'),
    K3=('K3', 'std'), LP=('LP', 'std'), L3=('L3', 'std'), RM3=('RM3', 'std'),
    K3W=('K3W', 'std'), K3WQ=('K3W', 'weak'), B3E=('B3E', 'std'),
    G3=('G3', 'std'), MH=('MH', 'mh'), NH=('NH', 'nh'), GO=('GO', 'go'),
    P3=('P3', None))


def logic_info(name: str) -> dict:
    """Semantic description of a registered logic, from its *name* only.

    keys: base, quantified (flavour or None), modal (frame condition or None),
    classical (identity/existence are logical), modal_flavour.
    """
    if name in _NONMODAL:
        base, q = _NONMODAL[name]
        return dict(name=name, base=base, quant=q, frame=None,
                    classical=base == 'CPL', modal_flavour=None)
    if name in ('K', 'D', 'T', 'S4', 'S5'):
        frame = dict(FRAME_PREFIX)[name]
        return dict(name=name, base='CPL', quant='std', frame=frame,
                    classical=True, modal_flavour='std')
    for prefix, frame in FRAME_PREFIX:
        if name.startswith(prefix) and name[len(prefix):] in _NONMODAL:
            inner = name[len(prefix):]
            base, q = _NONMODAL[inner]
            # the modal operators generalise the same way as the quantifiers
            return dict(name=name, base=base, quant=q, frame=frame,
                        classical=False, modal_flavour=q)
    raise KeyError(name)


def values(base):
    return BASES[base]['values']


def designated(base):
    return DESIGNATED[base]


def op(base, name):
    return BASES[base][name]


def table(base, name):
    'Complete table: tuple of values -> value.'
    f = BASES[base][name]
    n = 1 if name in OPERATORS_1 else 2
    return {t: f(*t) for t in product(BASES[base]['values'], repeat=n)}


# ---------------------------------------------------------------------------
# generalised disjunction / conjunction (quantifiers, modal operators)
# ---------------------------------------------------------------------------

def _order(base):
    return {v: i for i, v in enumerate(BASES[base]['values'])}


def generalize(base, flavour, kind, vals):
    """Value of an existential-type (kind='E': exists, possibility) or
    universal-type (kind='A': forall, necessity) sentence whose instances
    have the values ``vals`` (a list; may be empty).

    flavours:
      std      max / min in the linear order of the base (doc/logics/include/
               fde/m.existential.rst read on three values, k3, lp ...).  Empty
               domain: F for E, T for A.
      lattice  FDE: lattice join / meet.
      weak     K3WQ, KK3WQ: N if some instance is N, else classical.
      mh       E: T if T in M; N if both N and F in M; F otherwise.  A as std.
      nh       A: F if F in M; B if both B and T in M; T otherwise.  E as std.
      go       instances are crunched first, then std.
    """
    vals = list(vals)
    r = _order(base)
    vs = BASES[base]['values']
    bottom, top = vs[0], vs[-1]
    if flavour == 'go':
        vals = [crunch(v) for v in vals]
        flavour = 'std'
    if flavour == 'lattice':
        out = bottom if kind == 'E' else top
        f = _join4 if kind == 'E' else _meet4
        for v in vals:
            out = f(out, v)
        return out
    if flavour == 'weak':
        if 'N' in vals:
            return 'N'
        flavour = 'std'
    if flavour == 'mh' and kind == 'E':
        s = set(vals)
        if 'T' in s:
            return 'T'
        if 'N' in s and 'F' in s:
            return 'N'
        return 'F'
    if flavour == 'nh' and kind == 'A':
        s = set(vals)
        if 'F' in s:
            return 'F'
        if 'B' in s and 'T' in s:
            return 'B'
        return 'T'
    if kind == 'E':
        out = bottom
        for v in vals:
            if r[v] > r[out]:
                out = v
        return out
    out = top
    for v in vals:
        if r[v] < r[out]:
            out = v
    return out


# ---------------------------------------------------------------------------
# frame conditions
# ---------------------------------------------------------------------------

def frame_ok(frame, worlds, R):
    'Does the relation R (set of pairs over worlds) meet the frame condition?'
    R = set(R)
    if frame in (None, 'none'):
        return True
    if frame == 'serial':
        return all(any((w, v) in R for v in worlds) for w in worlds)
    refl = all((w, w) in R for w in worlds)
    if frame == 'reflexive':
        return refl
    trans = all((a, c) in R for (a, b) in R for (b2, c) in R if b == b2)
    if frame == 's4':
        return refl and trans
    sym = all((b, a) in R for (a, b) in R)
    if frame == 's5':
        return refl and trans and sym
    raise ValueError(frame)


def closure(frame, worlds, R):
    """Least relation containing R with the frame condition (reflexive,
    reflexive-transitive, equivalence).  Not defined for 'serial'."""
    R = set(R)
    if frame in (None, 'none'):
        return R
    if frame == 'serial':
        raise ValueError('serial closure is not unique')
    R |= {(w, w) for w in worlds}
    if frame == 'reflexive':
        return R
    while True:
        add = set()
        for (a, b) in R:
            for (b2, c) in R:
                if b == b2 and (a, c) not in R:
                    add.add((a, c))
            if frame == 's5' and (b, a) not in R:
                add.add((b, a))
        if not add:
            return R
        R |= add
