"""Reference structural walker over lexical *idents* (nested tuples), written
without any code from pytableaux.  Leaves may be symbolic integers: equality
of leaves is delegated to `eq`, which callers pass (plain `==` concretely, a
forking comparison under pysymex).

ident shapes (lang/lex.py `identitem` / `spec`):
    ('Constant', (i, s))   ('Variable', (i, s))   ('Atomic', (i, s))
    ('Predicate', (i, s, arity))
    ('Predicated', (pred_spec, (param_ident, ...)))
    ('Quantified', (quantifier_name, variable_spec, sentence_ident))
    ('Operated', (operator_name, (operand_ident, ...)))
"""
from __future__ import annotations


def tree_eq(p, q, eq):
    if isinstance(p, tuple) or isinstance(q, tuple):
        if not (isinstance(p, tuple) and isinstance(q, tuple)) or len(p) != len(q):
            return False
        for a, b in zip(p, q):
            if not tree_eq(a, b, eq):
                return False
        return True
    return eq(p, q)


def substitute(ident, new, old, eq):
    'Replace every parameter occurrence equal to `old` by `new`.'
    kind, spec = ident
    if kind == 'Atomic':
        return ident
    if kind == 'Predicated':
        pred, params = spec
        return (kind, (pred, tuple(new if tree_eq(p, old, eq) else p for p in params)))
    if kind == 'Quantified':
        q, v, body = spec
        return (kind, (q, v, substitute(body, new, old, eq)))
    if kind == 'Operated':
        op, operands = spec
        return (kind, (op, tuple(substitute(x, new, old, eq) for x in operands)))
    raise ValueError(kind)


def params(ident):
    'All parameter occurrences, left to right.'
    kind, spec = ident
    if kind == 'Atomic':
        return []
    if kind == 'Predicated':
        return list(spec[1])
    if kind == 'Quantified':
        return params(spec[2])
    return [p for x in spec[1] for p in params(x)]


def predicates(ident):
    kind, spec = ident
    if kind == 'Atomic':
        return []
    if kind == 'Predicated':
        return [spec[0]]
    if kind == 'Quantified':
        return predicates(spec[2])
    return [p for x in spec[1] for p in predicates(x)]


def atomics(ident):
    kind, spec = ident
    if kind == 'Atomic':
        return [spec]
    if kind == 'Predicated':
        return []
    if kind == 'Quantified':
        return atomics(spec[2])
    return [p for x in spec[1] for p in atomics(x)]


def operators(ident):
    'prefix order'
    kind, spec = ident
    if kind in ('Atomic', 'Predicated'):
        return []
    if kind == 'Quantified':
        return operators(spec[2])
    out = [spec[0]]
    for x in spec[1]:
        out += operators(x)
    return out


def quantifiers(ident):
    'prefix order'
    kind, spec = ident
    if kind in ('Atomic', 'Predicated'):
        return []
    if kind == 'Quantified':
        return [spec[0]] + quantifiers(spec[2])
    out = []
    for x in spec[1]:
        out += quantifiers(x)
    return out


def same_set(xs, ys, eq):
    for x in xs:
        if not any(tree_eq(x, y, eq) for y in ys):
            return False
    for y in ys:
        if not any(tree_eq(x, y, eq) for x in xs):
            return False
    return True
