#!/bin/sh
# Offline bootstrap of the framework's interpreter: an overlay venv on /venv
# (the repository's environment) plus z3-solver and crosshair-tool from the
# local wheelhouse.  Idempotent.
cd "$(dirname "$0")" || exit 3
VENV=.venv
if [ -x "$VENV/bin/python" ] && "$VENV/bin/python" -c 'import z3, crosshair, jinja2' >/dev/null 2>&1; then
    exit 0
fi
(
    flock 9
    if [ -x "$VENV/bin/python" ] && "$VENV/bin/python" -c 'import z3, crosshair, jinja2' >/dev/null 2>&1; then
        exit 0
    fi
    rm -rf "$VENV"
    /venv/bin/python -m venv "$VENV" || exit 3
    SP="$VENV/lib/python3.12/site-packages"
    echo "import site; site.addsitedir('/venv/lib/python3.12/site-packages')" > "$SP/_overlay.pth"
    PIP_NO_INDEX=1 "$VENV/bin/pip" install -q --no-index --find-links /opt/veriftools/wheels \
        z3-solver crosshair-tool >/dev/null 2>&1 || exit 3
    "$VENV/bin/python" -c 'import z3, crosshair' || exit 3
) 9>.setup.lock
