"""CrossHair (engine E3) twin of the minfloor / maxceil part of C08: the same
property as checks/c08.py::limit_fn, written as PEP316 contracts over calls of
the real functions; used by the thorough tier of C08 as a second engine on one
kernel ("diff two engines once per encoding").  `_reach_*` are reachability
twins: their postcondition is false, CrossHair must refute them.
"""
from typing import List

from pytableaux.tools import maxceil, minfloor


def _minfloor_bounded(floor: int, xs: List[int]) -> int:
    """
    pre: 1 <= len(xs) <= 4
    pre: all(x >= floor for x in xs)
    post: __return__ == min(xs)
    """
    return minfloor(floor, list(xs))


def _maxceil_bounded(ceil: int, xs: List[int]) -> int:
    """
    pre: 1 <= len(xs) <= 4
    pre: all(x <= ceil for x in xs)
    post: __return__ == max(xs)
    """
    return maxceil(ceil, list(xs))


def _minfloor_element(floor: int, xs: List[int]) -> int:
    """
    pre: 1 <= len(xs) <= 4
    post: __return__ in xs
    post: __return__ == min(xs) or __return__ <= floor
    """
    return minfloor(floor, list(xs))


def _maxceil_element(ceil: int, xs: List[int]) -> int:
    """
    pre: 1 <= len(xs) <= 4
    post: __return__ in xs
    post: __return__ == max(xs) or __return__ >= ceil
    """
    return maxceil(ceil, list(xs))


def _minfloor_default(floor: int, d: int) -> int:
    """
    pre: d != 0
    post: __return__ == d
    """
    return minfloor(floor, [], d)


def _reach_minfloor(floor: int, xs: List[int]) -> int:
    """
    pre: 1 <= len(xs) <= 4
    post: __return__ == min(xs)
    """
    # false in general (early return at the floor): must be refuted
    return minfloor(floor, list(xs))
