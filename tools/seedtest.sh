#!/bin/sh
# usage: tools/seedtest.sh <diff> <demo.py> <CHECK-ID> [tier]
# Applies a seeded change to /repo, runs its demonstration and one check,
# then undoes the change.  Never commits anything in /repo.
# SEED_REPO=<worktree> runs everything against a scratch worktree instead of /repo.
R="${SEED_REPO:-/repo}"
DIFF="$1"; DEMO="$2"; ID="$3"; TIER="${4:-quick}"
cd /verif || exit 3
if [ -n "$(git -C "$R" status --porcelain --untracked-files=no)" ]; then
  echo "seedtest: $R has uncommitted changes, refusing"; exit 3
fi
echo "== demo on clean tree"
( cd "$R" && PYTHONPATH="$R" /venv/bin/python "$DEMO" >/tmp/seed_demo_$$_clean.log 2>&1 ); echo "demo clean exit=$?"
git -C "$R" apply "$DIFF" || { echo "seedtest: patch does not apply"; exit 3; }
echo "== demo with change"
( cd "$R" && PYTHONPATH="$R" /venv/bin/python "$DEMO" >/tmp/seed_demo_$$_mut.log 2>&1 ); echo "demo mutated exit=$?"
tail -n 3 /tmp/seed_demo_$$_mut.log | cut -c1-300
echo "== check $ID ($TIER) with change"
VERIF_REPO="$R" VERIF_EVIDENCE_SCRATCH=1 ./vt check "$ID" --tier "$TIER" 2>&1 | grep -v "^KNOWN-FINDING" | cut -c1-400 | tail -n 8
git -C "$R" checkout -- . 
rm -f /tmp/seed_demo_$$_*.log
echo "== $R restored: $(git -C "$R" status --porcelain --untracked-files=no | wc -l) modified files"
