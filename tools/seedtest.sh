#!/bin/sh
# usage: tools/seedtest.sh <diff> <demo.py> <CHECK-ID> [tier]
# Applies a seeded change to /repo, runs its demonstration and one check,
# then undoes the change.  Never commits anything in /repo.
DIFF="$1"; DEMO="$2"; ID="$3"; TIER="${4:-quick}"
cd /verif || exit 3
if [ -n "$(git -C /repo status --porcelain --untracked-files=no)" ]; then
  echo "seedtest: /repo has uncommitted changes, refusing"; exit 3
fi
echo "== demo on clean tree"
( cd /repo && PYTHONPATH=/repo /venv/bin/python "$DEMO" >/tmp/seed_demo_clean.log 2>&1 ); echo "demo clean exit=$?"
git -C /repo apply "$DIFF" || { echo "seedtest: patch does not apply"; exit 3; }
echo "== demo with change"
( cd /repo && PYTHONPATH=/repo /venv/bin/python "$DEMO" >/tmp/seed_demo_mut.log 2>&1 ); echo "demo mutated exit=$?"
tail -n 3 /tmp/seed_demo_mut.log | cut -c1-300
echo "== check $ID ($TIER) with change"
VERIF_EVIDENCE_SCRATCH=1 ./vt check "$ID" --tier "$TIER" 2>&1 | grep -v "^KNOWN-FINDING" | cut -c1-400 | tail -n 8
git -C /repo checkout -- . 
echo "== /repo restored: $(git -C /repo status --porcelain --untracked-files=no | wc -l) modified files"
