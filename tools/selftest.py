"""Self-test of the two engines (run: ./vt-style `PYTHONPATH=/verif:/repo .venv/bin/python tools/selftest.py`).

Not a property check -- it validates the machinery the checks rely on:

 1. pysymex on toy functions with known path sets: exhaustive path count, a
    planted bug is found with a concrete witness, the witness replays, an
    infeasible branch is pruned, the budget runs out as `exhaustive=False`
    (never as success), the n-ary pick enumerates every alternative.
 2. semz3 against brute force: for every base logic without modality, every
    propositional argument with <= 2 connectives is decided by the solver
    (`countermodel`) and by enumerating all valuations with the plain-Python
    evaluator; the verdicts must coincide and every solver countermodel must be
    confirmed by the evaluator.  For K, T, D, S4, S5 the same with the
    evaluator enumerating all frames over <= 2 worlds satisfying the frame
    condition (solver bound W=2 as well).
 3. the evaluator against the library's own evaluator (`Model.value_of`) on the
    library's models of the example arguments (translator validation in the
    sense of Nelson et al.: the repository's own inputs through both).
"""
from __future__ import annotations

import itertools
import sys
import time

import z3

sys.setrecursionlimit(5000)

from engine.pysymex import BudgetExhausted, Explorer, ReplayDriver, SymDriver  # noqa: E402
from engine.semz3 import LogicSem, Stats  # noqa: E402
from families import args as fam  # noqa: E402
from families import semrun  # noqa: E402
from spec import evaluator as speceval  # noqa: E402
from spec import tables as T  # noqa: E402

FAIL = []


def expect(cond, what):
    if not cond:
        FAIL.append(what)
        print('SELFTEST-FAIL', what)


def toy(drv):
    x = drv.int('x')
    y = drv.int('y')
    k = drv.pick(3, 'k')
    if x > 10:
        if x < 5:           # infeasible
            return 'dead'
        if y == x + k:
            if k == 2 and y == 14:
                raise ValueError('planted')
            return 'eq'
        return 'gt'
    return 'le'


def test_pysymex():
    drv = SymDriver()
    ex = Explorer([], max_paths=1000, max_seconds=60)
    paths = ex.run(lambda: toy(drv))
    kinds = sorted((p.kind, str(p.value)) for p in paths)
    expect(all(p.value != 'dead' for p in paths), 'infeasible branch explored')
    expect(ex.exhausted, 'toy exploration not exhaustive')
    # le (x3 picks) + gt (x3) + eq (x3, one of which splits into planted / eq)
    expect(len(paths) == 10, f'toy path count {len(paths)} != 10: {kinds}')
    bugs = [p for p in paths if p.kind != 'ok']
    expect(len(bugs) == 1 and isinstance(bugs[0].value, ValueError), 'planted bug not found exactly once')
    if bugs:
        from engine.pysymex import model_values
        vals = model_values(ex.witness(bugs[0]))
        try:
            toy(ReplayDriver(list(bugs[0].picks), vals))
            expect(False, f'replay of the planted bug did not raise ({vals})')
        except ValueError:
            pass
    ex2 = Explorer([], max_paths=3, max_seconds=60)
    ex2.run(lambda: toy(drv))
    expect(not ex2.exhausted, 'path budget exhausted but exploration reported exhaustive')


def brute_valid(name, arg, worlds):
    'enumerate every interpretation of the atoms over every admissible frame'
    info = T.logic_info(name)
    vals = list(T.values(info['base']))
    atoms = sorted({a for s in arg for a in s.atomics}, key=lambda a: a.spec)
    frames = [set()]
    if info['frame'] is not None:
        pairs = [(i, j) for i in range(worlds) for j in range(worlds)]
        frames = [set(c) for r in range(len(pairs) + 1) for c in itertools.combinations(pairs, r)]
    else:
        worlds = 1
    for R in frames:
        for combo in itertools.product(vals, repeat=len(atoms) * worlds):
            A = {}
            it = iter(combo)
            for a in atoms:
                for w in range(worlds):
                    A[(tuple(a.spec), w)] = next(it)
            interp = dict(worlds=list(range(worlds)), K=1, R=R, den={}, wden={}, A=A, P={}, O={})
            ev = speceval.Evaluator(name, interp)
            if not ev.frame_ok():
                continue
            if all(ev.designated(p, 0) for p in arg.premises) and not ev.designated(arg.conclusion, 0):
                return False
    return True


def test_semz3():
    from pytableaux.lang import Argument
    from pytableaux.logics import registry
    registry.import_all()
    stats = Stats()
    names = sorted(registry(n).Meta.name for n in registry.all())
    shapes = fam.prop(0) + fam.prop(1) + fam.prop(2)
    mshapes = ['La:a', 'a:La', 'Ma:a', 'a:Ma', 'LLa:La', 'MMa:Ma', 'Ma:La', 'LMa:Ma', 'La:MLa', 'a:LMa',
               'MKab:KMaMb', 'LAab:ALaLb', 'NMa:LNa', 'LNa:NMa', 'Lb:LCab:La']
    n = agree = 0
    for name in names:
        info = T.logic_info(name)
        if info['quant'] is None and info['frame'] is None and info['base'] not in ('CPL',):
            pass
        S = LogicSem(name)
        todo = shapes if not S.modal else mshapes
        if S.modal and info['base'] != 'CPL':
            todo = mshapes[:8]     # many-valued modal: |values|^(2 atoms x 2 worlds) x 16 frames
        for argstr in todo:
            arg = Argument(argstr)
            st, cm = semrun.countermodel(S, arg, stats, W=2, K=1)
            if st == 'unknown':
                expect(False, f'{name} {argstr}: solver unknown')
                continue
            bv = brute_valid(name, arg, 2)
            n += 1
            if (st == 'unsat') == bv:
                agree += 1
            else:
                expect(False, f'{name} {argstr}: solver says {st}, brute force says valid={bv}')
            if st == 'sat':
                expect(semrun.check_countermodel(name, arg, cm), f'{name} {argstr}: countermodel not confirmed')
    print(f'semz3 vs brute force: {agree}/{n} verdicts agree, {stats.asdict()}')


def test_evaluator_vs_library():
    from pytableaux.examples import arguments
    from pytableaux.logics import registry
    from pytableaux.proof import Tableau
    registry.import_all()
    n = 0
    for name in ('CPL', 'K3', 'LP', 'FDE', 'L3', 'G3', 'B3E', 'K3W', 'RM3', 'GO', 'MH', 'NH', 'P3'):
        logic = registry(name)
        base = T.logic_info(name)['base']
        for arg in list(arguments.values()):
            if any(s.quantifiers or s.predicates for s in arg):
                continue
            if any(o.name in ('Possibility', 'Necessity') for s in arg for o in s.operators):
                continue
            tab = Tableau(logic, arg, is_build_models=True, max_steps=400).build()
            for b in tab.open:
                m = getattr(b, 'model', None)
                if m is None:
                    continue
                atoms = sorted({a for s in arg for a in s.atomics}, key=lambda a: a.spec)
                A = {(tuple(a.spec), 0): str(m.value_of(a, world=0) if 'world' in m.value_of.__code__.co_varnames
                                             else m.value_of(a)) for a in atoms}
                interp = dict(worlds=[0], K=1, R=set(), den={}, wden={}, A=A, P={}, O={})
                ev = speceval.Evaluator(name, interp)
                for s in arg:
                    for sub in [s] + [x for x in getattr(s, 'operands', ())]:
                        try:
                            lib = str(m.value_of(sub))
                        except Exception:  # noqa: BLE001
                            continue
                        mine = str(ev.value(sub, 0))
                        n += 1
                        if lib != mine:
                            key = f'C07|{name}|'
                            # the FDE-family tables at (N,B)/(B,N) are a recorded C07 finding
                            if base == 'FDE' and {'N', 'B'} <= {str(ev.value(x, 0)) for x in getattr(sub, 'operands', ())}:
                                continue
                            expect(False, f'{name} {sub}: library value {lib}, evaluator {mine} under {A}')
                break
    print(f'evaluator vs library evaluator: {n} sentence values compared')


def main():
    t0 = time.time()
    test_pysymex()
    test_semz3()
    test_evaluator_vs_library()
    print(f'selftest: {len(FAIL)} failure(s) in {time.time() - t0:.1f}s')
    return 1 if FAIL else 0


if __name__ == '__main__':
    sys.exit(main())
