#!/usr/bin/env python3
"""Regenerate MANIFEST.json from the table below (single source of truth).

usage: tools/mkmanifest.py      (validates against /root/.vp/MANIFEST.schema.json
                                 when jsonschema is importable)
"""
import json
import os
import subprocess

ROOT = os.path.dirname(os.path.dirname(os.path.abspath(__file__)))

HOOK_COMMIT = '5017fc7'

E1 = 'pysymex'
E2 = 'semz3'

# id -> dict(engine, category, text, note, technique, design)
CHECKS = {
 'C01': dict(
    engine=E2, category='model_checking', design='6 C01',
    text='Soundness is decided compositionally: trunk lemma (this check, z3 equivalence of the real build_trunk '
         'output with "premises designated, conclusion not"), rule lemma (C04), closure lemma (C05), freshness '
         '(C06) give: a closed tableau is a refutation, for every argument, option combination and tie-break '
         'order. The composition is cross-checked on real runs: the real prover under pysymex with both option '
         'flags symbolic; on every path ending valid z3 searches a countermodel of the specification semantics '
         'with |W|<=3, |D|<=3 (confirmed by a plain-Python evaluator before reporting).',
    note='Argument shapes are enumerated (family + propositional, by seed); countermodels beyond 3 worlds / elements '
         'are outside the bound; oracle spec/tables.py; runs that applied a rule listed as a C04 known finding are '
         'attributed to it.',
    technique='SMT countermodel search (z3) over real prover runs + SMT lemmas on real rule output'),
 'C02': dict(
    engine=E2, category='model_checking', design='6 C02',
    text='On every real run that ends invalid, for every open branch without a limit flag, z3 decides whether any '
         'interpretation of the specification semantics satisfies all nodes of the branch (unsat = the branch '
         'should have closed or is unsaturated); the library model of the branch is evaluated with the library '
         'evaluator on every node and is_countermodel_to must hold.',
    note='Branches with more than 4 worlds or constants are outside the bound; two tie-break seeds, three option '
         'settings; argument shapes enumerated. Identity-rule incompleteness is a listed known finding.',
    technique='SMT satisfiability of open branches (z3) + evaluation of the library model'),
 'C03': dict(
    engine=E2, category='model_checking', design='6 C03',
    text='For every propositional shape of the family and every logic z3 decides validity over all assignments of '
         'the logic\'s values (one query, not an enumeration); the real prover runs under pysymex with both option '
         'flags symbolic (4 paths) and must complete without limit flags with the same verdict.',
    note='Quick: P(0), 100 of P(1), 150 of P(2) per logic by seed; thorough: P(0..1) complete, 6000 of P(2), 1500 of '
         'P(3). The termination certificate of the design was not built; termination is observed per run.',
    technique='SMT validity (z3) against real prover runs with symbolic options'),
 'C09': dict(
    engine=E1, category='model_checking', design='6 C09',
    text='The real prover runs under pysymex with the search configuration symbolic: both optimisation flags '
         '(symbolic booleans), build vs. step loop and premise order/multiplicity (symbolic picks), tie-break '
         'seeds enumerated; per (logic, argument) no path raises and all non-limit outcome classes coincide.',
    note='18 arguments per logic (quick), 2 seeds; tie-break orders are sampled by seed, not exhausted.',
    technique='proxy-based symbolic execution (pysymex) over option flags and call modes'),
 'C10': dict(
    engine=E1, category='model_checking', design='6 C10',
    text='Renaming: constants are built from z3 integers (pairwise distinct) and the real prover runs under pysymex; '
         'one exploration partitions all injective namings into the order/equality types the code distinguishes; '
         'all paths must agree. Letters, predicates, variables: five adverse concrete renamings. Reflexivity and '
         'monotonicity on real runs.',
    note='Symbolic naming on 8 logics (quick) for shapes with 2-3 constants; 12 arguments per logic for the concrete '
         'part; premise pool of 13 sentences.',
    technique='proxy-based symbolic execution (pysymex) over symbol names + metamorphic runs'),
 'C11': dict(
    engine=E2, category='model_checking', design='6 C11',
    text='Per declared pair, z3 finds a map between the value sets that commutes with all operators and generalised '
         'connectives and reflects designation, and shows frame-class inclusion over all relations on 3 worlds '
         '(spec and extracted tables); prover cross-check on real runs per pair.',
    note='98 declared pairs; 30 family + 60 propositional arguments per pair (quick).',
    technique='SMT search for a countermodel-transferring embedding (z3) + real prover runs'),
 'C12': dict(
    engine=E1, category='model_checking', design='6 C12',
    text='Sentence shapes of the parsers\' language with symbolic symbol picks: Polish ASCII rendering parses back '
         'to an equal sentence, argument strings rebuild equal arguments, renderings are injective per (notation, '
         'format, dialect, options) over the union of all paths; product exploration of the real standard parser '
         'and a reference parser on symbolic strings: returned sentence == denoted sentence.',
    note='19 shapes, index at the ends of the range, subscripts {0,1,10} (quick) / {0,1,9,10,11,100}; standard '
         'input length <= 4 (quick) / 5 over a reduced alphabet. Round trip of the standard writer is not claimed by '
         'the property and not checked.',
    technique='proxy-based symbolic execution (pysymex): symbolic strings, product with a reference parser'),
 'C13': dict(
    engine=E1, category='model_checking', design='6 C13',
    text='The real parsers run on symbolic input strings (characters fixed lazily by n-ary picks, so a rejected prefix '
         'covers all continuations) in product with a reference parser: only ParseError, accept/reject agreement, '
         'returned sentences closed/non-vacuous/arity-correct, every path validated against the complete real entry '
         'point on its witness, history independence.',
    note='Polish length <= 5 (quick) / 6, standard <= 4 / 5, reduced alphabets (all symbol classes, digits 0,1,9, '
         'space, foreign char); thorough adds the full alphabet at length 4. Stub: the retry wrapper of '
         'StandardParser.__call__ is mirrored (it formats the input into a str) and validated per path.',
    technique='proxy-based symbolic execution (pysymex) on symbolic strings, product with a reference parser'),
 'C04': dict(
    engine=E2, category='proof', design='6 C04',
    text='Every non-closure rule class of every logic is run (the real rule object on a real branch) and '
         'what it adds is compared by z3 with the node it expands, over all interpretations of the '
         'specification semantics on |W|<=3, |D|<=3: sat(node) <=> exists new names. OR_i AND sat(adds_i). '
         'A bounded proof per rule: the case analysis over values is complete, shapes of operands are listed. '
         'Frame rules: all sets of access pairs over <=3 worlds as symbolic booleans under pysymex.',
    note='Trusts z3, engine/semz3.py (Interp), spec/tables.py as oracle (FDE family: Belnap-Dunn lattice), '
         'the real substitution used to instantiate quantifiers (property C15). MaxConsts limit lifted on '
         'harness branches. Non-ticking rules compared at their fixpoint assuming every element/accessible '
         'world is named on the branch.',
    technique='SMT validity of rule exactness obligations generated from real rule output (z3); '
              'proxy symbolic execution for frame rules'),
 'C05': dict(
    engine=E2, category='proof', design='6 C05',
    text='For every logic, literal-bearing sentence kind, subset of literal constraints, world split and '
         'insertion order, the real branch is built and z3 decides satisfiability of the literal set in the '
         'specification semantics: closed <=> unsat; the value read by the real model builder must be a '
         'solution of the same query. The literal space is finite and covered completely.',
    note='Trusts z3, engine/semz3.py, spec/tables.py. All insertion orders of a literal set share one real '
         'tableau as separate root branches (one order is repeated in a tableau of its own); logics with a '
         'serial rule use one tableau per order.',
    technique='SMT satisfiability of literal sets (z3) against real closure rules and model builder'),
 'C07': dict(
    engine=E2, category='proof', design='6 C07',
    text='Finite and complete: every (logic, operator, value tuple) of the real truth functions is '
         'compared with an independent specification by z3 equivalence queries, plus definitional '
         'identities and modal-equals-base; nothing is sampled, so "proof" over the whole (finite) space.',
    note='Trusts z3, the ite encoding in engine/semz3.py, CPython evaluating Model.truth_function on each '
         'tuple, and spec/tables.py as the documented tables (diffed against the code at every run).',
    technique='SMT equivalence checking (z3) of extracted truth tables against a specification'),
 'C06': dict(
    engine=E1, category='model_checking', design='6 C06',
    text='The real Branch runs under the proxy symbolic executor on every history of appends and copies '
         'within the bound; constants are built by the real constructor from z3 integers (index 0..3, '
         'unbounded subscript), worlds are z3 integers; after every step z3 decides, on every live branch, '
         'that new_constant() differs from every constant of every sentence and new_world() exceeds every '
         'world. One path per order/equality type of the symbols, so all namings are covered, not samples.',
    note='Bound: 3 (quick) / 4 (thorough) steps with one-constant sentences, letters at worlds, access '
         'nodes and copies; 2 / 3 steps when two-constant sentences take part. Stub: lexical __hash__ '
         'replaced by the type rank during symbolic runs (sound if equal items hash equal, property C14). '
         'Witness use by rules is asserted in C04. Counterexamples replayed concretely in a fresh process.',
    technique='proxy-based symbolic execution (pysymex) of Branch.append/copy with z3 path feasibility'),
 'C08': dict(
    engine=E1, category='model_checking', design='6 C08',
    text='The real Model of every logic runs under the proxy symbolic executor on frames filled with symbolic '
         'truth values (z3 integer per letter / predication / uninterpreted sentence and world) and symbolic '
         'initial access pairs; after the real finish(), z3 decides per path that value_of equals the documented '
         'recursion (term built by engine/semz3 from the logic\'s own tables and documented generalised '
         'connectives over the model\'s finished access relation); the finished relation is compared with the '
         'required closure for every initial relation; the classical identity/existence completion is explored '
         'over all orders of set_value calls; minfloor/maxceil on symbolic integer lists (and once more as CrossHair '
         'contracts over the real functions, xh/limit_best_contracts.py).',
    note='Bounds: 2 worlds (the frame alone: 3 quick / 4 thorough), 2 constants (3 in the non-modal logics, thorough), sentence depth 2, 3 / 4 set_value calls. Stub: symbolic '
         'values are placed into frames directly because the setters compare with `is`. Table correctness is C07; '
         'FDE-family quantifiers are compared with the documented min/max.',
    technique='proxy-based symbolic execution (pysymex) of the evaluator + SMT equivalence with the documented recursion'),
 'C14': dict(
    engine=E1, category='model_checking', design='6 C14',
    text='The real comparison kernel (orderitems, rich comparisons, Argument wrapper) runs on arbitrary '
         'symbolic integer sort tuples; the real constructors build every pair of item shapes (nine types, '
         'sentences to depth 2) from symbolic coordinates, and z3-guided paths cover every order/equality '
         'type of the coordinates: == <=> same ident, equal => same sort_tuple and same real hash (on the '
         'witness), type rank first, trichotomy, antisymmetry, transitivity. Rebuild from spec/ident, copy, '
         'deepcopy, pickle under construction histories with ITEM_CACHE_SIZE 1,2,3,1000. Immutability per type.',
    note='Bounds: tuples of length <=3; 20 shapes; histories <=2 (quick) / 3 (thorough) constructions. Stub: '
         'lexical __hash__ replaced by the type rank while coordinates are symbolic; the real hash is compared '
         'on the concrete witness of each path. Pickle and immutability are concrete.',
    technique='proxy-based symbolic execution (pysymex) of the real constructors and comparison kernel'),
 'C15': dict(
    engine=E1, category='model_checking', design='6 C15',
    text='The real substitute, unquantify (c >> q), negative() and the published derived attributes run '
         'under the proxy symbolic executor on enumerated sentence shapes whose parameters, bound variables and '
         'letter subscripts are z3 integers and whose parameter kinds are symbolic picks; every aliasing pattern '
         '(pnew == pold, pold absent, shared parameters under nested quantifiers) is a path; results are compared '
         'as ident trees with symbolic leaves against an independent walker.',
    note='Bound: 14 shapes of depth <= 2 (quick) / 17 of depth <= 3 (thorough). Stub: lexical hash abstraction. '
         'Reference semantics: spec/walker.py.',
    technique='proxy-based symbolic execution (pysymex) compared with a reference walker'),
 'C16': dict(
    engine=E1, category='model_checking', design='6 C16',
    text='The real Tableau is built with max_steps = k for a z3 integer k over all of Z; the explorer partitions '
         'Z into the n+2 classes the code distinguishes, each a complete real run that stops after that prefix '
         'and finishes, so tree and statistics are observable for every prefix. Event monitors check the per-step '
         'facts; public state is compared with recomputed values.',
    note='Argument shapes (repository examples, modal and first-order families) and the node-order seed are '
         'enumerated: 19 arguments per logic in the quick tier. Options are the defaults.',
    technique='proxy-based symbolic execution (pysymex) with a symbolic step limit'),
 'C17': dict(
    engine=E1, category='model_checking', design='6 C17',
    text='Symbolic step limit (all of Z), symbolic clock (tools.timing._nowms stubbed by arbitrary non-decreasing '
         'z3 integers) and time limit, and symbolic API call sequences drive the real Tableau; per path: '
         'three-valued verdicts, len(history) <= k decided on the path condition, prefix of the unlimited '
         'history, timeout leaves the tableau finished/premature/tree-less, finished tableaux do not change, '
         'setters raise IllegalStateError.',
    note='Bounds: 13 arguments per logic for k; 8 logics x 4 tiny arguments for the clock (quick); call sequences '
         'of <= 3 (quick) / 4 calls on 8 logics. Stubs: the clock, int(T) in the timeout message.',
    technique='proxy-based symbolic execution (pysymex): symbolic limit, clock stub, call-sequence picks'),
 'C18': dict(
    engine=E1, category='model_checking', design='6 C18',
    text='The real qset, linqset and Predicates run under the proxy symbolic executor on every operation '
         'sequence within the bound; value operands are z3 integers (membership/duplicate decisions are '
         'solver-decided equalities, every aliasing pattern is a path), op codes and indexes are n-ary '
         'symbolic picks; a list-without-duplicates model runs alongside and is compared after every '
         'operation. Bounded model checking of the container state machine; exhaustive within the bound.',
    note='Bound: symbolic initial content of 0..2 elements, then up to 2 (quick) / 3 (thorough) operations '
         'from the full operation set, universe of 3 values; Predicates: update([p,q]) then up to 2/3 '
         'operations over F/1, F/2, G/1, Identity. Trusts z3, the proxies (constant hash for symbolic ints), '
         'and the reference model in checks/c18.py. Counterexamples are replayed concretely on the real '
         'containers (recorded picks + witness values) in a fresh interpreter.',
    technique='proxy-based symbolic execution (pysymex) with z3 path feasibility; bounded, exhaustive'),
 'C20': dict(
    engine=E1, category='model_checking', design='6 C20',
    text='get_data() of the real Model runs on the symbolic models of C08 (symbolic truth values, symbolic access '
         'pairs); per path the export is compared with the real evaluator (worlds, access pairs, value of every '
         'letter/uninterpreted sentence, extension and anti-extension membership of every tuple, sortedness, '
         'determinism); models read from open branches of real tableaux get the same comparison concretely.',
    note='Bounds: 2 worlds, 2 constants, 4-5 model contents per logic; 25 arguments per logic for branch models. '
         'value_of is the reference, as the property states.',
    technique='proxy-based symbolic execution (pysymex) of the export against the evaluator'),
}

NOT_YET = 'check not built yet in this round (work in progress; planned in DESIGN.md section 6)'

NOT_APPLICABLE = {
 'C19': 'rendering is template expansion over finished concrete tableaux: no integer, string or '
        'semantic domain for a solver to decide, and the template engine is C-level string code the '
        'proxies cannot enter (DESIGN.md section 6, C19)',
}

ALL = [f'C{i:02d}' for i in range(1, 21)]


def main():
    checks = []
    for pid in ALL:
        c = CHECKS.get(pid)
        if not c:
            continue
        checks.append(dict(
            property_id=pid,
            quick_cmd=f'./vt check {pid} --tier quick',
            thorough_cmd=f'./vt check {pid} --tier thorough',
            evidence_file=f'/verif/evidence/{pid}.json',
            replay_cmd_template='./vt replay {path}',
            engine=c['engine'],
            level_claimed=dict(category=c['category'], text=c['text'],
                               design_ref=f'DESIGN.md section {c["design"]}'),
            level_note=c['note'],
            technique=c['technique']))
    na = []
    for pid in ALL:
        if pid in CHECKS:
            continue
        na.append(dict(property_id=pid, reason=NOT_APPLICABLE.get(pid, NOT_YET)))
    manifest = dict(
        version=1,
        setup_cmd='./setup.sh',
        hooks=dict(
            guard='PYTABLEAUX_VERIF',
            enable='PYTABLEAUX_VERIF=1 [PYTABLEAUX_VERIF_ORDER=<int>] in the environment of the '
                   'interpreter that imports /repo (set by ./vt); pure Python, no build step',
            baseline_off_cmd='tools/baseline.sh /repo',
            source_commits=[HOOK_COMMIT],
            add_only=True),
        engines=[
            dict(name=E1, path='engine/pysymex.py',
                 serves_properties=[p for p, c in CHECKS.items() if c['engine'] == E1],
                 kind_free_text='proxy-based dynamic symbolic execution of the real Python code; '
                                'z3 decides branch feasibility and the per-path property'),
            dict(name=E2, path='engine/semz3.py',
                 serves_properties=[p for p, c in CHECKS.items() if c['engine'] == E2],
                 kind_free_text='z3 encodings generated at run time from the real rule output and '
                                'truth functions, against the specification in spec/'),
        ],
        checks=checks,
        notes='Exit codes: 0 held (KNOWN-FINDING lines allowed), 1 VIOLATION after concrete replay, '
              '3 harness error. Known findings: known_findings.jsonl.',
        not_applicable=na)
    path = os.path.join(ROOT, 'MANIFEST.json')
    with open(path, 'w') as f:
        json.dump(manifest, f, indent=1)
        f.write('\n')
    try:
        import jsonschema
        schema = json.load(open('/root/.vp/MANIFEST.schema.json'))
        jsonschema.validate(manifest, schema)
        print('MANIFEST.json valid;', len(checks), 'checks,', len(na), 'not applicable')
    except ImportError:
        print('MANIFEST.json written (jsonschema not available for validation)')


if __name__ == '__main__':
    main()
