#!/bin/sh
# Run the repository's pinned test suite with the verification guard OFF and
# compare the set of passing tests with /root/.vp/BASELINE.json (stable_pass).
# usage: tools/baseline.sh [repo-dir]     exit 0 = every stable test passed
REPO="${1:-/repo}"
OUT="$(mktemp -d)"
unset PYTABLEAUX_VERIF PYTABLEAUX_VERIF_ORDER
cd "$REPO" && /venv/bin/python -m pytest -ra -q -p no:cacheprovider --timeout=900 \
  --continue-on-collection-errors --junitxml="$OUT/junit.xml" >"$OUT/log" 2>&1
tail -n 3 "$OUT/log"
/venv/bin/python - "$OUT/junit.xml" <<'PY'
import json, sys, xml.etree.ElementTree as ET
base = set(json.load(open('/root/.vp/BASELINE.json'))['stable_pass'])
passed = set()
for tc in ET.parse(sys.argv[1]).getroot().iter('testcase'):
    if not any(ch.tag in ('failure', 'error', 'skipped') for ch in tc):
        passed.add(f"{tc.get('classname')}::{tc.get('name')}")
missing = sorted(base - passed)
print(f'baseline stable={len(base)} passed_now={len(passed)} stable_not_passing={len(missing)}')
for m in missing[:40]:
    print('  NOT PASSING:', m)
sys.exit(1 if missing else 0)
PY
RC=$?
rm -rf "$OUT"
exit $RC
