"""E1 -- pysymex: proxy based dynamic symbolic execution of real Python code.

The code under test is *not* translated.  It is executed as it is, on proxy
objects (`SymBool`, `SymInt`, `SymIntI`, ...) whose operations build z3 terms.
Whenever the code needs a concrete truth value (`if`, `while`, `and`, a dict
lookup comparing keys, ...) the proxy asks the active `Explorer` for a
decision.  The explorer enumerates the decision tree depth first by replaying
decision prefixes; a branch is only followed if z3 says it is feasible under
the path condition.  The result of `Explorer.run(fn)` is the complete list of
paths `(path condition, outcome)`; every concrete input of the harness
satisfies exactly one path condition, so a property shown on every path holds
for every input within the preconditions handed to the explorer.

Soundness rules (DESIGN.md section 3):

* exhaustion or nothing: `Explorer.exhausted` is False when a path or time
  budget ran out or when z3 answered `unknown`;
* replay determinism: at every replayed decision the z3 term must be the one
  recorded when the prefix was created, otherwise `ReplayDivergence`;
* `Abort` (infeasible path) and `BudgetExhausted` derive from BaseException so
  that `except Exception` in the code under test cannot swallow them.
"""
from __future__ import annotations

import time
import z3

__all__ = (
    'Abort', 'BudgetExhausted', 'ReplayDivergence', 'HarnessError',
    'Explorer', 'Path', 'SymBool', 'SymInt', 'SymIntI', 'current',
    'sym_and', 'sym_or', 'sym_not', 'concretize', 'SymDriver', 'ReplayDriver',
    'model_values')


class Abort(BaseException):
    'Raised inside a path that turned out infeasible.'


class BudgetExhausted(BaseException):
    'Raised when the exploration budget is used up.'


class HarnessError(Exception):
    'The harness (not the code under test) is wrong.'


class ReplayDivergence(HarnessError):
    'A replayed prefix met a different decision than the one recorded.'


class Path:
    __slots__ = ('pc', 'decisions', 'kind', 'value', 'notes', 'picks')

    def __init__(self, pc, decisions, kind, value, notes, picks=()):
        self.picks = picks          # tuple of the n-ary pick values, in order
        self.pc = pc                # list of z3 BoolRef
        self.decisions = decisions  # tuple of ints
        self.kind = kind            # 'ok' | 'exc'
        self.value = value          # return value | exception instance
        self.notes = notes          # dict of free-form notes added by the harness

    def __repr__(self):
        return f'<Path {self.kind} {self.value!r} |pc|={len(self.pc)}>'


_CUR: 'Explorer|None' = None


def current() -> 'Explorer':
    if _CUR is None:
        raise HarnessError('no active explorer')
    return _CUR


class Explorer:
    """Depth first exploration of the decision tree of ``fn``.

    Args:
        preconds: z3 constraints that hold on every path (the harness'
            *assumptions*; they are reported in the evidence).
        max_paths / max_seconds: budgets. Running out of either sets
            ``exhausted = False``; nothing is reported as held then.
    """

    def __init__(self, preconds=(), max_paths=200000, max_seconds=600.0,
                 on_path=None):
        self.solver = z3.Solver()
        self.preconds = list(preconds)
        if self.preconds:
            self.solver.add(*self.preconds)
        self.max_paths = max_paths
        self.max_seconds = max_seconds
        self.queries = 0
        self.query_results = {'sat': 0, 'unsat': 0, 'unknown': 0}
        self.solver_time = 0.0
        self.decisions_total = 0
        self.picks_total = 0
        self.exhausted = True
        self.unknowns = 0
        self.paths: list[Path] = []
        self.aborted = 0
        self.on_path = on_path
        self.pending_left = 0
        # per path
        self.prefix = ()
        self.pos = 0
        self.trace: list[int] = []
        self.sig: list[int] = []
        self.conds: list = []
        self.pc: list = []
        self.pending: list = []
        self.model = None
        self.notes: dict = {}
        self.pick_log: list = []
        self.decided: dict = {}

    # -- solver helpers -----------------------------------------------------

    def _check(self, *assumptions):
        self.queries += 1
        t = time.perf_counter()
        r = self.solver.check(*assumptions)
        self.solver_time += time.perf_counter() - t
        self.query_results[str(r)] += 1
        return r

    def _model_eval(self, cond):
        if self.model is None:
            return None
        v = self.model.eval(cond, model_completion=True)
        if z3.is_true(v):
            return True
        if z3.is_false(v):
            return False
        return None

    def _ensure_model(self):
        if self.model is None:
            r = self._check()
            if r == z3.sat:
                self.model = self.solver.model()
            elif r == z3.unsat:
                raise Abort()
            else:
                self.unknowns += 1
                self.exhausted = False
                raise Abort()

    # -- decisions ----------------------------------------------------------

    def decide(self, cond) -> bool:
        'Binary decision on a z3 Bool term.'
        if z3.is_true(cond):
            return True
        if z3.is_false(cond):
            return False
        h = cond.hash()
        known = self.decided.get(h)
        if known is not None and known[1].eq(cond):
            # the same term was already decided on this path
            return known[0]
        self.decisions_total += 1
        if self.pos < len(self.prefix):
            d, eh, _ = self.prefix[self.pos]
            if eh != h:
                raise ReplayDivergence(
                    f'decision {self.pos}: recorded term hash {eh}, now {h} ({cond})')
            d = bool(d)
        else:
            self._ensure_model()
            guess = self._model_eval(cond)
            if guess is None:
                # evaluate failed: ask directly
                r = self._check(cond)
                if r == z3.sat:
                    self.model = self.solver.model()
                    guess = True
                elif r == z3.unsat:
                    guess = False
                else:
                    self.unknowns += 1
                    self.exhausted = False
                    guess = False
            other = z3.Not(cond) if guess else cond
            r = self._check(other)
            if r == z3.sat:
                self.pending.append(
                    (tuple(zip(self.trace, self.sig, self.conds)) + ((int(not guess), h, cond),)))
            elif r == z3.unknown:
                self.unknowns += 1
                self.exhausted = False
            d = guess
        self.pos += 1
        self.trace.append(int(d))
        self.sig.append(h)
        self.conds.append(cond)
        c = cond if d else z3.Not(cond)
        self.pc.append(c)
        self.solver.add(c)
        self.decided[h] = (d, cond)
        if self.pos <= len(self.prefix):
            self.model = None
        return d

    def pick(self, n: int, label: str = 'pick', term=None) -> int:
        """n-ary choice without solver calls.

        With ``term`` (a z3 Int term whose domain is 0..n-1 and which is not
        otherwise constrained) the equation ``term == i`` is added to the path
        condition.  Without ``term`` a fresh variable is used.
        """
        if n <= 0:
            raise HarnessError('pick from empty domain')
        self.picks_total += 1
        if term is None:
            term = z3.Int(f'{label}@{self.pos}')
        h = hash(('pick', n, term.hash()))
        if self.pos < len(self.prefix):
            d, eh, _ = self.prefix[self.pos]
            if eh != h:
                raise ReplayDivergence(
                    f'pick {self.pos}: recorded hash {eh}, now {h} ({label})')
        else:
            d = 0
            base = tuple(zip(self.trace, self.sig, self.conds))
            for alt in range(n - 1, 0, -1):
                self.pending.append(base + ((alt, h, None),))
        self.pos += 1
        self.trace.append(d)
        self.pick_log.append(d)
        self.sig.append(h)
        self.conds.append(None)
        c = term == d
        self.pc.append(c)
        self.solver.add(c)
        self.model = None
        return d

    def assume(self, cond):
        'Add an assumption in the middle of a path (recorded in the pc).'
        if isinstance(cond, SymBool):
            cond = cond.e
        elif isinstance(cond, bool):
            if not cond:
                raise Abort()
            return
        self.pc.append(cond)
        self.solver.add(cond)
        self.model = None
        r = self._check()
        if r == z3.unsat:
            raise Abort()
        if r == z3.unknown:
            self.unknowns += 1
            self.exhausted = False
            raise Abort()
        self.model = self.solver.model()

    def note(self, key, value):
        self.notes[key] = value

    # -- main loop ----------------------------------------------------------

    def run(self, fn, *args, **kw):
        global _CUR
        if _CUR is not None:
            raise HarnessError('nested explorers are not supported')
        t0 = time.perf_counter()
        stack = [()]
        # hard stop: the budget is checked between paths; a watchdog interrupts a single path that
        # runs far beyond it (the exploration is then reported as not exhausted, never as success)
        import signal
        import threading
        watchdog = False
        if threading.current_thread() is threading.main_thread() and self.max_seconds and self.max_seconds < 10 ** 7:
            def _alarm(signum, frame):
                raise BudgetExhausted('watchdog: a single path ran beyond the time budget')
            try:
                self._old_alarm = signal.signal(signal.SIGALRM, _alarm)
                signal.setitimer(signal.ITIMER_REAL, self.max_seconds * 1.5 + 30)
                watchdog = True
            except (ValueError, OSError):
                watchdog = False
        try:
            while stack:
                if len(self.paths) + self.aborted >= self.max_paths or (
                        time.perf_counter() - t0 > self.max_seconds):
                    self.exhausted = False
                    break
                self.prefix = stack.pop()
                self.pos = 0
                self.trace = []
                self.sig = []
                self.conds = []
                self.pc = []
                self.pending = []
                self.model = None
                self.notes = {}
                self.pick_log = []
                self.decided = {}
                self.solver.push()
                _CUR = self
                try:
                    try:
                        res = ('ok', fn(*args, **kw))
                    except Abort:
                        res = None
                    except BudgetExhausted:
                        res = None
                        self.exhausted = False
                    except HarnessError:
                        raise
                    except Exception as e:  # noqa: BLE001 - outcome of the code under test
                        res = ('exc', e)
                finally:
                    _CUR = None
                    self.solver.pop()
                if self.pos < len(self.prefix):
                    raise ReplayDivergence(
                        f'path ended after {self.pos} decisions, prefix has {len(self.prefix)}')
                if res is None:
                    self.aborted += 1
                else:
                    p = Path(list(self.pc), tuple(self.trace), res[0], res[1], self.notes,
                             tuple(self.pick_log))
                    self.paths.append(p)
                    if self.on_path is not None:
                        self.on_path(p)
                stack.extend(self.pending)
            self.pending_left = len(stack)
        finally:
            _CUR = None
            if watchdog:
                signal.setitimer(signal.ITIMER_REAL, 0)
                signal.signal(signal.SIGALRM, self._old_alarm)
        self.wall = time.perf_counter() - t0
        return self.paths

    # -- after the run ------------------------------------------------------

    def witness(self, path: Path, extra=()):
        'A model of preconditions + path condition (+ extra), or None.'
        s = z3.Solver()
        s.add(*self.preconds)
        s.add(*path.pc)
        if extra:
            s.add(*extra)
        self.queries += 1
        r = s.check()
        self.query_results[str(r)] += 1
        if r == z3.sat:
            return s.model()
        if r == z3.unknown:
            self.unknowns += 1
            self.exhausted = False
        return None

    def holds_on(self, path: Path, prop) -> 'tuple[bool|None, object]':
        """Is ``prop`` (z3 Bool) implied by preconditions + path condition?

        Returns (True, None), (False, model) or (None, None) for unknown.
        """
        s = z3.Solver()
        s.add(*self.preconds)
        s.add(*path.pc)
        s.add(z3.Not(prop))
        self.queries += 1
        t = time.perf_counter()
        r = s.check()
        self.solver_time += time.perf_counter() - t
        self.query_results[str(r)] += 1
        if r == z3.unsat:
            return True, None
        if r == z3.sat:
            return False, s.model()
        self.unknowns += 1
        self.exhausted = False
        return None, None

    def stats(self) -> dict:
        return dict(
            paths=len(self.paths), aborted=self.aborted,
            decisions=self.decisions_total, picks=self.picks_total,
            queries=self.queries, query_results=dict(self.query_results),
            solver_time_s=round(self.solver_time, 3),
            exhausted=self.exhausted, unknowns=self.unknowns,
            unexplored_prefixes=self.pending_left,
            wall_s=round(getattr(self, 'wall', 0.0), 3))


# ---------------------------------------------------------------------------
# proxies
# ---------------------------------------------------------------------------

def _b(o):
    if isinstance(o, SymBool):
        return o.e
    if isinstance(o, (SymInt, SymIntI)):
        return o.e != 0
    return z3.BoolVal(bool(o))


class SymBool:
    'Symbolic boolean. ``bool(x)`` forks.'
    __slots__ = ('e',)

    def __init__(self, e):
        if isinstance(e, str):
            e = z3.Bool(e)
        self.e = e

    def __bool__(self):
        return current().decide(self.e)

    def __and__(self, o):
        return SymBool(z3.And(self.e, _b(o)))
    __rand__ = __and__

    def __or__(self, o):
        return SymBool(z3.Or(self.e, _b(o)))
    __ror__ = __or__

    def __xor__(self, o):
        return SymBool(z3.Xor(self.e, _b(o)))
    __rxor__ = __xor__

    def __invert__(self):
        return SymBool(z3.Not(self.e))

    def __eq__(self, o):
        if isinstance(o, (bool, SymBool)):
            return SymBool(self.e == _b(o))
        return NotImplemented

    def __ne__(self, o):
        if isinstance(o, (bool, SymBool)):
            return SymBool(self.e != _b(o))
        return NotImplemented

    def __hash__(self):
        return hash(bool(self))

    def __int__(self):
        return int(bool(self))

    def __index__(self):
        return int(bool(self))

    def __mul__(self, o):
        # used as ``n * bool(flag)`` in the code under test
        return o * int(bool(self))
    __rmul__ = __mul__

    def __repr__(self):
        return f'SymBool({self.e})'


def sym_and(*xs):
    return SymBool(z3.And(*[_b(x) for x in xs]))


def sym_or(*xs):
    return SymBool(z3.Or(*[_b(x) for x in xs]))


def sym_not(x):
    return SymBool(z3.Not(_b(x)))


def _term(o):
    'z3 Int term of an int-like, or None.'
    if isinstance(o, (SymInt, SymIntI)):
        return o.e
    if isinstance(o, bool):
        return z3.IntVal(int(o))
    if isinstance(o, int):
        return z3.IntVal(o)
    if isinstance(o, SymBool):
        return z3.If(o.e, z3.IntVal(1), z3.IntVal(0))
    return None


def _cmp(op):
    def method(self, o):
        t = _term(o)
        if t is None:
            if isinstance(o, float) and o == int(o):
                t = z3.IntVal(int(o))
            else:
                return NotImplemented
        return SymBool(op(self.e, t))
    return method


def _arith(op, reflected=False):
    def method(self, o):
        t = _term(o)
        if t is None:
            return NotImplemented
        cls = type(self) if isinstance(self, SymIntI) else (
            type(o) if isinstance(o, SymIntI) else SymInt)
        if reflected:
            return cls(op(t, self.e))
        return cls(op(self.e, t))
    return method


class _SymIntOps:

    __lt__ = _cmp(lambda a, b: a < b)
    __le__ = _cmp(lambda a, b: a <= b)
    __gt__ = _cmp(lambda a, b: a > b)
    __ge__ = _cmp(lambda a, b: a >= b)

    def __eq__(self, o):
        t = _term(o)
        if t is None:
            if isinstance(o, float) and o == int(o):
                t = z3.IntVal(int(o))
            else:
                return False
        return SymBool(self.e == t)

    def __ne__(self, o):
        t = _term(o)
        if t is None:
            if isinstance(o, float) and o == int(o):
                t = z3.IntVal(int(o))
            else:
                return True
        return SymBool(self.e != t)

    __add__ = _arith(lambda a, b: a + b)
    __radd__ = _arith(lambda a, b: a + b, True)
    __sub__ = _arith(lambda a, b: a - b)
    __rsub__ = _arith(lambda a, b: a - b, True)
    __mul__ = _arith(lambda a, b: a * b)
    __rmul__ = _arith(lambda a, b: a * b, True)

    def __neg__(self):
        return type(self)(-self.e)

    def __pos__(self):
        return self

    def __abs__(self):
        return type(self)(z3.If(self.e >= 0, self.e, -self.e))

    def __bool__(self):
        return current().decide(self.e != 0)

    def __hash__(self):
        # constant: dict/set lookups then fall through to ``==`` which forks,
        # which is the semantics of a lookup with a symbolic key.
        return 7

    def concretize(self, limit=64) -> int:
        """Fork over the feasible values (finite domain required).  The value
        tried at each step is taken from the solver's model when the path is
        new, and from the recorded decision when a prefix is replayed, so the
        enumeration is replay-deterministic."""
        ex = current()
        if z3.is_int_value(self.e):
            return self.e.as_long()
        for _ in range(limit):
            n = None
            if ex.pos < len(ex.prefix):
                rec = ex.prefix[ex.pos][2]
                if rec is not None and z3.is_eq(rec) and rec.arg(0).eq(self.e) \
                        and z3.is_int_value(rec.arg(1)):
                    n = rec.arg(1).as_long()
            if n is None:
                ex._ensure_model()
                v = ex.model.eval(self.e, model_completion=True)
                if not z3.is_int_value(v):
                    raise HarnessError(f'cannot evaluate {self.e}')
                n = v.as_long()
            if ex.decide(self.e == n):
                return n
        ex.exhausted = False
        raise BudgetExhausted(f'unbounded concretisation of {self.e}')

    def __repr__(self):
        return f'{type(self).__name__}({self.e})'


class SymInt(_SymIntOps):
    """Symbolic integer that is *not* an ``int`` instance.

    ``x.__index__()`` returns the proxy itself: the lexical constructors call
    it as a method to normalise coordinates, so the proxy survives.  Built-in
    consumers (``range``, list indexing, ``operator.index``) reject a
    non-int result with TypeError; the harness reports that as a harness
    error rather than guessing.
    """
    __slots__ = ('e', 'opaque')

    def __init__(self, e, opaque=None):
        if isinstance(e, str):
            e = z3.Int(e)
        elif isinstance(e, int):
            e = z3.IntVal(e)
        self.e = e
        # `opaque`: value returned by int(x) instead of forking over the
        # values; only for symbols whose int() is used for text (messages)
        self.opaque = opaque

    def __index__(self):
        return self

    def __int__(self):
        if self.opaque is not None:
            return self.opaque
        return self.concretize()

    # Text made from a symbolic integer (error messages, reprs) shows the
    # term; it never forces a value.  Harnesses whose subject *is* text
    # (writers) concretise explicitly.
    def __str__(self):
        return f'<{self.e}>'

    def __format__(self, spec):
        return f'<{self.e}>'


SENTINEL = -(2 ** 61) + 12345


class SymIntI(_SymIntOps, int):
    """Symbolic integer that *is* an ``int`` instance (for code that filters
    with ``isinstance(x, int)``, e.g. world numbers).  The underlying concrete
    value is a large negative sentinel: any C-level use of the raw value shows
    up as an absurd number, and harnesses assert that no sentinel survives."""

    def __new__(cls, e):
        self = int.__new__(cls, SENTINEL)
        if isinstance(e, str):
            e = z3.Int(e)
        elif isinstance(e, int):
            e = z3.IntVal(e)
        self.e = e
        return self

    def __index__(self):
        return self.concretize()

    def __int__(self):
        return self.concretize()

    def __str__(self):
        return f'<{self.e}>'

    __repr__ = _SymIntOps.__repr__
    __hash__ = _SymIntOps.__hash__

    def __format__(self, spec):
        return f'<{self.e}>'


class SymDriver:
    'Harness-side source of symbolic inputs (the active explorer).'
    symbolic = True

    def pick(self, n, label='pick'):
        return current().pick(n, label)

    def int(self, name):
        return SymInt(name)

    def const(self, n):
        'A concrete integer that hashes like the symbolic ones.'
        return SymInt(int(n))

    def bool(self, name):
        return SymBool(name)

    def note(self, key, value):
        current().note(key, value)


class ReplayDriver:
    '''Concrete replay of one path: recorded picks, witness values, no
    proxies and no solver.  Used by `replay` functions in a fresh process.'''
    symbolic = False

    def __init__(self, picks, values):
        self.picks = list(picks)
        self.values = dict(values)
        self.i = 0

    def pick(self, n, label='pick'):
        if self.i >= len(self.picks):
            raise HarnessError('replay ran out of recorded picks')
        v = self.picks[self.i]
        self.i += 1
        if not 0 <= v < n:
            raise HarnessError(f'recorded pick {v} out of range {n} at {label}')
        return v

    def int(self, name):
        return int(self.values.get(name, 0))

    def const(self, n):
        return int(n)

    def bool(self, name):
        return bool(self.values.get(name, False))

    def note(self, key, value):
        pass


def model_values(model):
    'name -> python value of a z3 model (ints and bools).'
    out = {}
    if model is None:
        return out
    for d in model.decls():
        v = model[d]
        if z3.is_int_value(v):
            out[d.name()] = v.as_long()
        elif z3.is_true(v) or z3.is_false(v):
            out[d.name()] = z3.is_true(v)
    return out


def concretize(x):
    'Concrete value of a proxy (forking) or the object itself.'
    if isinstance(x, (SymInt, SymIntI)):
        return x.concretize()
    if isinstance(x, SymBool):
        return bool(x)
    return x
