"""Small helpers around real tableaux used by several checks."""
from __future__ import annotations

from pytableaux.proof import common as _common


def reset_order(seed=None):
    """Forget the objects remembered by the PYTABLEAUX_VERIF ordering hook
    (keeps memory flat over many tableaux) and optionally set the seed."""
    order = getattr(_common, '_verif_order', None)
    if order is not None:
        order.reset(seed)
        return True
    return False


def hook_active():
    return getattr(_common, '_verif_order', None) is not None
