"""Entry point:  python -m engine.main check <ID> [--tier quick|thorough]
                 python -m engine.main replay <file>

Contract (see DESIGN.md section 9):
  exit 0  the property held on everything explored; lines
          ``KNOWN-FINDING: property=<id> <what>`` for listed findings seen.
  exit 1  ``VIOLATION property=<id> replay=<path>`` printed for each violation
          that is not a listed known finding, after a successful concrete
          replay in a fresh interpreter.
  exit 3  harness error: vacuous harness, replay divergence, counterexample
          that does not reproduce, encoding error, solver `unknown` in a
          proof-level obligation set.
Budget exhaustion is ``INCONCLUSIVE`` (exit 0, evidence exhaustive=false).
"""
from __future__ import annotations

import argparse
import hashlib
import importlib
import json
import os
import subprocess
import sys
import time
import traceback

ROOT = os.path.dirname(os.path.dirname(os.path.abspath(__file__)))
REPO = os.environ.get('VERIF_REPO', '/repo')
EXIT_OK, EXIT_VIOLATION, EXIT_HARNESS = 0, 1, 3


class Violation:
    """One failing case.

    key:     stable identifier of the *specific* failing input / call site /
             history (used to match known findings).
    what:    one line for humans.
    replay:  JSON-able dict handed to ``checks.<id>.replay`` in a fresh
             interpreter; must reproduce the failure on the real code
             without any proxy.
    """

    def __init__(self, key: str, what: str, replay: dict, weight: int = 1):
        self.key = key
        self.what = what
        self.replay = replay
        self.weight = weight      # number of obligations / cases it stands for


class Report:

    def __init__(self, property_id: str, level: str):
        self.property_id = property_id
        self.level = level
        self.coverage: dict = {}
        self.assumptions: list[str] = []
        self.violations: list[Violation] = []
        self.inconclusive: list[str] = []
        self.harness_errors: list[str] = []
        self.notes: list[str] = []

    def violation(self, key, what, replay, weight=1):
        self.violations.append(Violation(key, what, replay, weight))

    def harness_error(self, msg):
        self.harness_errors.append(msg)


class Ctx:

    def __init__(self, property_id, tier, seed, jobs):
        self.property_id = property_id
        self.tier = tier
        self.seed = seed
        self.jobs = jobs
        self.quick = tier == 'quick'
        self.t0 = time.time()

    def elapsed(self):
        return time.time() - self.t0


def file_hashes(relpaths):
    out = {}
    for rel in relpaths:
        p = os.path.join(REPO, rel)
        try:
            with open(p, 'rb') as f:
                out[rel] = hashlib.sha256(f.read()).hexdigest()[:16]
        except OSError:
            out[rel] = 'missing'
    return out


def load_known(property_id):
    known, fixed = {}, []
    path = os.path.join(ROOT, 'known_findings.jsonl')
    if not os.path.exists(path):
        return known, fixed
    with open(path) as f:
        for line in f:
            line = line.strip()
            if not line or line.startswith('#'):
                continue
            if line.startswith('fixed:'):
                fixed.append(line)
                continue
            d = json.loads(line)
            if d.get('property') == property_id:
                known[d.get('key') or ('re:' + d['key_regex'])] = d
    return known, fixed


def match_known(known, key):
    'The known-finding entry (dict key) a violation key falls under, or None.'
    if key in known:
        return key
    import re
    for k, d in known.items():
        rx = d.get('key_regex')
        if rx and re.fullmatch(rx, key):
            return k
    return None


def run_replay_file(path) -> tuple[int, str]:
    'Replay in a fresh interpreter. returns (exit code, output).'
    env = dict(os.environ)
    env['PYTHONPATH'] = f'{ROOT}:{REPO}'
    env['PYTABLEAUX_VERIF'] = '1'
    env.pop('PYTHONHASHSEED', None)
    p = subprocess.run(
        [sys.executable, '-m', 'engine.main', 'replay', path],
        cwd=ROOT, env=env, capture_output=True, text=True, timeout=600)
    return p.returncode, (p.stdout + p.stderr)


def cmd_check(args) -> int:
    pid = args.property.upper()
    tier = args.tier or os.environ.get('VERIF_TIER') or 'quick'
    if tier not in ('quick', 'thorough'):
        tier = 'quick'
    seed = int(os.environ.get('VERIF_SEED', '0') or 0)
    jobs = int(os.environ.get('VERIF_JOBS', '0') or 0) or min(16, os.cpu_count() or 1)
    ctx = Ctx(pid, tier, seed, jobs)
    mod = importlib.import_module(f'checks.{pid.lower()}')
    t0 = time.time()
    try:
        report: Report = mod.run(ctx)
    except Exception:  # noqa: BLE001
        traceback.print_exc()
        print(f'HARNESS-ERROR property={pid} check crashed')
        return EXIT_HARNESS
    wall = time.time() - t0
    known, _ = load_known(pid)
    os.makedirs(os.path.join(ROOT, 'replays'), exist_ok=True)
    os.makedirs(os.path.join(ROOT, 'evidence'), exist_ok=True)
    new_violations = []
    known_seen = {}
    not_reproduced = []
    seen_keys = set()
    known_inst = {}
    weights = {}
    for v in report.violations:
        weights[v.key] = weights.get(v.key, 0) + v.weight
    known_weight = 0
    for v in report.violations:
        if v.key in seen_keys:
            continue
        seen_keys.add(v.key)
        kk = match_known(known, v.key)
        if kk is not None:
            known_seen.setdefault(kk, v)
            known_inst[kk] = known_inst.get(kk, 0) + 1
            known_weight += weights[v.key]
            continue
        name = hashlib.sha256(v.key.encode()).hexdigest()[:12]
        path = os.path.join(ROOT, 'replays', f'{pid}_{name}.json')
        with open(path, 'w') as f:
            json.dump(dict(property=pid, key=v.key, what=v.what, replay=v.replay),
                      f, indent=1, sort_keys=True, default=str)
        if len(new_violations) + len(not_reproduced) < 25:
            rc, out = run_replay_file(path)
        else:
            rc, out = EXIT_VIOLATION, '(replay skipped: more than 25 violations)'
        if rc == EXIT_VIOLATION:
            new_violations.append((v, path))
        else:
            not_reproduced.append((v, path, rc, out))
    for key, v in known_seen.items():
        print(f'KNOWN-FINDING: property={pid} {known[key].get("what", v.what)} '
              f'[{key}] instances={known_inst.get(key, 1)} e.g. {v.key}')
    for msg in report.inconclusive:
        print(f'INCONCLUSIVE property={pid} {msg}')
    for v, path in new_violations:
        print(f'VIOLATION property={pid} replay={path}')
        print(f'  {v.key}: {v.what[:400]}')
    for i, (v, path, rc, out) in enumerate(not_reproduced):
        print(f'HARNESS-ERROR property={pid} counterexample did not reproduce '
              f'(replay exit {rc}): {v.key}: {v.what[:300]} [{path}]')
        if i < 2:
            print('  ' + out.strip().replace('\n', '\n  ')[-1200:])
    for msg in report.harness_errors[:20]:
        print(f'HARNESS-ERROR property={pid} {msg[:500]}')
    if len(report.harness_errors) > 20:
        print(f'... {len(report.harness_errors) - 20} more harness errors')
    for n in report.notes:
        print(f'note: {n}')
    cov = dict(report.coverage)
    cov.setdefault('exhaustive', not report.inconclusive)
    if report.inconclusive:
        cov['exhaustive'] = False
    cov['inconclusive'] = len(report.inconclusive)
    if report.level == 'proof' and 'obligations' in cov:
        # obligations refuted by a *listed known finding* are not claimed: they
        # are counted apart, so that obligations == discharged exactly when
        # everything that is claimed was proved
        cov['obligations_generated'] = cov['obligations']
        cov['known_finding_obligations'] = known_weight
        cov['obligations'] = cov['obligations'] - known_weight
    cov['known_findings_matched'] = sorted(known_seen)
    cov['violation_keys'] = [v.key for v, _ in new_violations][:50]
    evidence = dict(
        property_id=pid, tier=tier, seed=seed, level=report.level,
        coverage=cov, assumptions=report.assumptions,
        wall_s=round(wall, 2), violations=len(new_violations))
    evdir = os.path.join(ROOT, 'evidence')
    if os.path.realpath(REPO) != '/repo' or os.environ.get('VERIF_EVIDENCE_SCRATCH'):
        # runs against a scratch copy never overwrite the committed evidence
        evdir = os.path.join('/tmp', 'verif_scratch_evidence')
        os.makedirs(evdir, exist_ok=True)
    with open(os.path.join(evdir, f'{pid}.json'), 'w') as f:
        json.dump(evidence, f, indent=1, sort_keys=True, default=str)
    print(f'{pid} tier={tier} seed={seed} wall={wall:.1f}s '
          f'violations={len(new_violations)} known={len(known_seen)} '
          f'inconclusive={len(report.inconclusive)} '
          f'harness_errors={len(report.harness_errors) + len(not_reproduced)}')
    if new_violations:
        # a reproduced violation is reported as such even if other
        # counterexamples of the same run did not reproduce
        return EXIT_VIOLATION
    if report.harness_errors or not_reproduced:
        return EXIT_HARNESS
    return EXIT_OK


def cmd_replay(args) -> int:
    with open(args.file) as f:
        d = json.load(f)
    pid = d['property']
    mod = importlib.import_module(f'checks.{pid.lower()}')
    try:
        reproduced, msg = mod.replay(d['replay'])
    except Exception:  # noqa: BLE001
        traceback.print_exc()
        print(f'HARNESS-ERROR property={pid} replay crashed')
        return EXIT_HARNESS
    print(msg)
    if reproduced:
        print(f'VIOLATION property={pid} replay={os.path.abspath(args.file)}')
        return EXIT_VIOLATION
    print(f'not reproduced: property={pid}')
    return EXIT_OK


def main(argv=None):
    ap = argparse.ArgumentParser(prog='vt')
    sub = ap.add_subparsers(dest='cmd', required=True)
    c = sub.add_parser('check')
    c.add_argument('property')
    c.add_argument('--tier', choices=('quick', 'thorough'))
    r = sub.add_parser('replay')
    r.add_argument('file')
    args = ap.parse_args(argv)
    if args.cmd == 'check':
        return cmd_check(args)
    return cmd_replay(args)


if __name__ == '__main__':
    sys.exit(main())
