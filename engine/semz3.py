"""E2 -- semz3: z3 encodings of the semantics of a logic, generated at run time
from (a) the real `Model.truth_function` of /repo's current source, evaluated
on every value tuple ("impl"), and (b) the independent specification in
`spec/tables.py` ("spec").

Truth values are z3 integers 0..n-1 in the order of `Meta.values`.
Sentences are the real lexical objects; `Interp` maps them to z3 terms over
symbolic valuations, extensions and access relations on bounded domains.
"""
from __future__ import annotations

import itertools
import time

import z3

from pytableaux.lang import (Atomic, Constant, Operated, Operator, Predicate,
                             Predicated, Quantified, Quantifier)
from pytableaux.logics import registry

from spec import tables as spec

TF_OPERATORS = tuple(Operator[n] for n in spec.OPERATORS)


class Stats:
    'Query accounting shared by the checks.'

    def __init__(self):
        self.queries = 0
        self.results = {'sat': 0, 'unsat': 0, 'unknown': 0}
        self.time = 0.0

    def check(self, solver, *assumptions):
        t = time.perf_counter()
        r = solver.check(*assumptions)
        self.time += time.perf_counter() - t
        self.queries += 1
        self.results[str(r)] += 1
        return r

    def merge(self, other: 'Stats|dict'):
        if isinstance(other, Stats):
            other = other.asdict()
        self.queries += other['queries']
        self.time += other['solver_time_s']
        for k, v in other['results'].items():
            self.results[k] += v

    def asdict(self):
        return dict(queries=self.queries, results=dict(self.results),
                    solver_time_s=round(self.time, 3))


def ite_table(table: dict, args, default=None):
    """Nested if-then-else term for a finite function ``table`` from tuples of
    ints to ints, applied to the z3 Int terms ``args``."""
    items = list(table.items())
    if default is None:
        e = z3.IntVal(items[-1][1])
        items = items[:-1]
    else:
        e = z3.IntVal(default)
    for k, v in reversed(items):
        cond = z3.And(*[a == ki for a, ki in zip(args, k)]) if len(k) > 1 else args[0] == k[0]
        e = z3.If(cond, z3.IntVal(v), e)
    return e


class LogicSem:
    """Tables of one logic, as integers.

    `impl`  from the real code (complete evaluation of the truth function);
    `spec`  from spec/tables.py via the logic's *name*.
    """

    def __init__(self, logic):
        self.logic = logic = registry(logic)
        self.name = logic.Meta.name
        self.info = spec.logic_info(self.name)
        self.base = self.info['base']
        self.values = list(logic.Meta.values)
        self.names = [v.name for v in self.values]
        self.n = len(self.values)
        self.idx = {v.name: i for i, v in enumerate(self.values)}
        self.impl_designated = sorted(self.idx[v.name] for v in logic.Meta.designated_values)
        self.spec_values = list(spec.values(self.base))
        self.values_agree = self.names == self.spec_values
        self.spec_designated = sorted(
            self.idx[v] for v in spec.designated(self.base) if v in self.idx)
        self.impl_unassigned = str(logic.Meta.unassigned_value)
        self.spec_unassigned = spec.UNASSIGNED[self.base]
        self.modal = bool(logic.Meta.modal)
        self.quantified = bool(logic.Meta.quantified)
        self.impl = {}
        self.spec = {}
        tf = logic.Model.truth_function
        for op in TF_OPERATORS:
            t = {}
            for tup in itertools.product(self.values, repeat=op.arity):
                out = getattr(tf, op.name)(*tup)
                t[tuple(self.idx[x.name] for x in tup)] = self.idx[out.name]
            self.impl[op.name] = t
            if self.values_agree:
                st = spec.table(self.base, op.name)
                self.spec[op.name] = {
                    tuple(self.idx[x] for x in k): self.idx[v] for k, v in st.items()}

    def tables(self, which):
        return self.impl if which == 'impl' else self.spec

    def designated(self, which):
        return self.impl_designated if which == 'impl' else self.spec_designated

    def tf(self, which, opname, *args):
        return ite_table(self.tables(which)[opname], args)

    def is_des(self, which, v):
        return z3.Or(*[v == i for i in self.designated(which)])

    def dom(self, v):
        return z3.And(v >= 0, v < self.n)

    def valname(self, i):
        return self.names[int(i)]
