"""E2 -- semz3: z3 encodings of the semantics of a logic, generated at run time
from (a) the real `Model.truth_function` of /repo's current source, evaluated
on every value tuple ("impl"), and (b) the independent specification in
`spec/tables.py` ("spec").

Truth values are z3 integers 0..n-1 in the order of `Meta.values`.
Sentences are the real lexical objects; `Interp` maps them to z3 terms over
symbolic valuations, extensions and access relations on bounded domains.
"""
from __future__ import annotations

import itertools
import time

import z3

from pytableaux.lang import (Atomic, Constant, Operated, Operator, Predicate,
                             Predicated, Quantified, Quantifier)
from pytableaux.logics import registry

from spec import tables as spec

TF_OPERATORS = tuple(Operator[n] for n in spec.OPERATORS)


class Stats:
    'Query accounting shared by the checks.'

    def __init__(self):
        self.queries = 0
        self.results = {'sat': 0, 'unsat': 0, 'unknown': 0}
        self.time = 0.0

    def check(self, solver, *assumptions):
        t = time.perf_counter()
        r = solver.check(*assumptions)
        if r == z3.unknown:
            # one retry: under heavy machine load the wall-clock timeout of a query can fire
            # although the query needs milliseconds (observed once in tools/selftest.py);
            # a second `unknown` is reported as such (inconclusive, never success)
            self.retried = getattr(self, 'retried', 0) + 1
            r = solver.check(*assumptions)
        self.time += time.perf_counter() - t
        self.queries += 1
        self.results[str(r)] += 1
        return r

    def merge(self, other: 'Stats|dict'):
        if isinstance(other, Stats):
            other = other.asdict()
        self.queries += other['queries']
        self.time += other['solver_time_s']
        for k, v in other['results'].items():
            self.results[k] += v

    def asdict(self):
        return dict(queries=self.queries, results=dict(self.results),
                    solver_time_s=round(self.time, 3))


def ite_table(table: dict, args, default=None):
    """Nested if-then-else term for a finite function ``table`` from tuples of
    ints to ints, applied to the z3 Int terms ``args``."""
    items = list(table.items())
    if default is None:
        e = z3.IntVal(items[-1][1])
        items = items[:-1]
    else:
        e = z3.IntVal(default)
    for k, v in reversed(items):
        cond = z3.And(*[a == ki for a, ki in zip(args, k)]) if len(k) > 1 else args[0] == k[0]
        e = z3.If(cond, z3.IntVal(v), e)
    return e


class LogicSem:
    """Tables of one logic, as integers.

    `impl`  from the real code (complete evaluation of the truth function);
    `spec`  from spec/tables.py via the logic's *name*.
    """

    def __init__(self, logic):
        self.logic = logic = registry(logic)
        self.name = logic.Meta.name
        self.info = spec.logic_info(self.name)
        self.base = self.info['base']
        self.values = list(logic.Meta.values)
        self.names = [v.name for v in self.values]
        self.n = len(self.values)
        self.idx = {v.name: i for i, v in enumerate(self.values)}
        self.impl_designated = sorted(self.idx[v.name] for v in logic.Meta.designated_values)
        self.spec_values = list(spec.values(self.base))
        self.values_agree = self.names == self.spec_values
        self.spec_designated = sorted(
            self.idx[v] for v in spec.designated(self.base) if v in self.idx)
        self.impl_unassigned = str(logic.Meta.unassigned_value)
        self.spec_unassigned = spec.UNASSIGNED[self.base]
        self.modal = bool(logic.Meta.modal)
        self.quantified = bool(logic.Meta.quantified)
        self.impl = {}
        self.spec = {}
        tf = logic.Model.truth_function
        for op in TF_OPERATORS:
            t = {}
            for tup in itertools.product(self.values, repeat=op.arity):
                out = getattr(tf, op.name)(*tup)
                t[tuple(self.idx[x.name] for x in tup)] = self.idx[out.name]
            self.impl[op.name] = t
            if self.values_agree:
                st = spec.table(self.base, op.name)
                self.spec[op.name] = {
                    tuple(self.idx[x] for x in k): self.idx[v] for k, v in st.items()}

    def tables(self, which):
        return self.impl if which == 'impl' else self.spec

    def designated(self, which):
        return self.impl_designated if which == 'impl' else self.spec_designated

    def tf(self, which, opname, *args):
        return ite_table(self.tables(which)[opname], args)

    def is_des(self, which, v):
        return z3.Or(*[v == i for i in self.designated(which)])

    def dom(self, v):
        return z3.And(v >= 0, v < self.n)

    def valname(self, i):
        return self.names[int(i)]


# ---------------------------------------------------------------------------
# Interpretations on bounded domains
# ---------------------------------------------------------------------------

MODAL_KIND = {'Possibility': 'E', 'Necessity': 'A'}
QUANT_KIND = {'Existential': 'E', 'Universal': 'A'}


def frame_constraint(frame, W, R):
    """z3 constraint that the relation R (function (i, j) -> Bool over
    concrete world indexes < W) meets the frame condition."""
    cs = []
    if frame in (None, 'none'):
        return cs
    if frame == 'serial':
        for i in range(W):
            cs.append(z3.Or(*[R(i, j) for j in range(W)]))
        return cs
    for i in range(W):
        cs.append(R(i, i))
    if frame == 'reflexive':
        return cs
    for i in range(W):
        for j in range(W):
            for k in range(W):
                cs.append(z3.Implies(z3.And(R(i, j), R(j, k)), R(i, k)))
    if frame == 's4':
        return cs
    for i in range(W):
        for j in range(W):
            cs.append(z3.Implies(R(i, j), R(j, i)))
    if frame == 's5':
        return cs
    raise ValueError(frame)


def free_variables(s):
    'variables occurring free in a sentence (`Sentence.variables` also lists bound occurrences)'
    t = type(s)
    if t is Quantified:
        return free_variables(s.sentence) - {s.variable}
    if t is Operated:
        out = set()
        for x in s.operands:
            out |= free_variables(x)
        return out
    return set(s.variables)


class Interp:
    """A symbolic interpretation for one logic over W worlds and K domain
    elements.

    * atoms / opaque sentences: one Int per (sentence, world);
    * predicates: one Int per (predicate, element tuple, world);
    * constants and world numbers occurring on a branch are *names*:
      ``den(c)`` in [0, K), ``wden(w)`` in [0, W) (world 0 / None is world 0);
    * ``R(i, j)`` Bool per pair, constrained by the logic's frame condition;
    * in the classical family identity is equality of denotations and
      existence is true of everything.

    ``which`` selects the truth tables: 'spec' (oracle) or 'impl' (tables
    extracted from the code); quantifiers and modal operators always follow
    spec.generalize with the flavour of the logic.
    """

    def __init__(self, S: LogicSem, which='spec', W=1, K=1, tag=''):
        self.S = S
        self.which = which
        self.W = W if S.modal else 1
        self.K = K
        self.tag = tag
        self.vars: dict = {}
        self.cons: list = []
        self._gen_cache: dict = {}
        self._preds_used: set = set()
        self._identity_used = False
        self.info = S.info
        if S.modal:
            self.cons += frame_constraint(self.info['frame'], self.W, self.Rc)

    # -- variables ----------------------------------------------------------
    def _val(self, key):
        v = self.vars.get(key)
        if v is None:
            v = self.vars[key] = z3.Int(f'{self.tag}{key}')
            self.cons.append(self.S.dom(v))
        return v

    def _int(self, key, n):
        v = self.vars.get(key)
        if v is None:
            v = self.vars[key] = z3.Int(f'{self.tag}{key}')
            self.cons += [v >= 0, v < n]
        return v

    def Rc(self, i, j):
        key = ('R', i, j)
        v = self.vars.get(key)
        if v is None:
            v = self.vars[key] = z3.Bool(f'{self.tag}R_{i}_{j}')
        return v

    def R(self, u, v):
        'Access between world terms (z3 Int or int).'
        if isinstance(u, int) and isinstance(v, int):
            return self.Rc(u, v)
        return z3.Or(*[
            z3.And(u == i, v == j, self.Rc(i, j))
            for i in range(self.W) for j in range(self.W)])

    def den(self, c):
        'Denotation (element index) of a constant name.'
        if self.K == 1:
            return 0
        return self._int(('den', c.spec), self.K)

    def wden(self, w):
        'Model world of a branch world number (None and 0 are world 0).'
        if w is None or self.W == 1:
            return 0
        if isinstance(w, int) and w == 0:
            return 0
        return self._int(('wden', int(w)), self.W)

    @staticmethod
    def _sel(index, n, f):
        'f(index) for a z3 Int term or an int index in [0, n).'
        if isinstance(index, int):
            return f(index)
        e = f(n - 1)
        for i in range(n - 2, -1, -1):
            e = z3.If(index == i, f(i), e)
        return e

    def _at(self, key, u):
        return self._sel(u, self.W, lambda i: self._val((*key, i)))

    def _ext(self, pred, elems, u):
        'value of pred at element tuple (ints or z3 terms) at world term u'
        def at_world(i):
            def rec(prefix, rest):
                if not rest:
                    return self._val(('P', pred.spec, tuple(prefix), i))
                return self._sel(rest[0], self.K, lambda e: rec(prefix + [e], rest[1:]))
            return rec([], list(elems))
        return self._sel(u, self.W, at_world)

    # -- generalised connectives -------------------------------------------
    def _gen_table(self, kind, flavour):
        key = (kind, flavour)
        t = self._gen_cache.get(key)
        if t is None:
            names = self.S.names
            t = {}
            for pattern in itertools.product((False, True), repeat=self.S.n):
                present = [names[i] for i, p in enumerate(pattern) if p]
                t[pattern] = self.S.idx[spec.generalize(self.S.base, flavour, kind, present)]
            self._gen_cache[key] = t
        return t

    def generalize(self, kind, flavour, instances):
        """instances: list of (active: z3 Bool, value: z3 Int)."""
        n = self.S.n
        has = [z3.Or(*[z3.And(a, v == i) for a, v in instances]) if instances else z3.BoolVal(False)
               for i in range(n)]
        table = self._gen_table(kind, flavour)
        items = list(table.items())
        e = z3.IntVal(items[-1][1])
        for pattern, res in items[:-1]:
            cond = z3.And(*[h if p else z3.Not(h) for h, p in zip(has, pattern)])
            e = z3.If(cond, z3.IntVal(res), e)
        return e

    # -- evaluation -----------------------------------------------------------
    def opaque(self, s):
        M = self.S.logic.Meta
        if type(s) is Quantified and not M.quantified:
            return True
        if type(s) is Operated and s.operator in M.modal_operators and not M.modal:
            return True
        return False

    def value(self, s, u=0, env=None):
        'z3 Int term: value of sentence s at world term u.'
        if self.opaque(s):
            if free_variables(s):
                # an uninterpreted sentence with free variables is one atom per
                # instantiation of those variables by elements
                inst = tuple((v.spec, (env or {}).get(v)) for v in sorted(free_variables(s)))
                if any(isinstance(e, z3.ExprRef) for _, e in inst):
                    raise NotImplementedError('open opaque sentence under a symbolic element')
                return self._at(('O', s.ident, inst), u)
            return self._at(('O', s.ident), u)
        t = type(s)
        if t is Atomic:
            return self._at(('A', s.spec), u)
        if t is Predicated:
            elems = []
            for p in s.params:
                if type(p) is Constant:
                    elems.append(self.den(p))
                else:
                    elems.append(env[p])
            if self.info['classical'] and s.predicate.is_system:
                if s.predicate.name == 'Identity':
                    # a per-world equivalence relation that every extension
                    # respects (constraints added in `constraints()`)
                    self._identity_used = True
                    return self._ext(s.predicate, elems, u)
                return z3.IntVal(self.S.idx['T'])
            self._preds_used.add((s.predicate.spec, len(elems)))
            return self._ext(s.predicate, elems, u)
        if t is Operated:
            op = s.operator
            if op.name in MODAL_KIND:
                def at(i):
                    inst = [(self.Rc(i, j), self.value(s.lhs, j, env)) for j in range(self.W)]
                    return self.generalize(MODAL_KIND[op.name], self.info['modal_flavour'], inst)
                return self._sel(u, self.W, at)
            return self.S.tf(self.which, op.name, *[self.value(x, u, env) for x in s.operands])
        if t is Quantified:
            inst = []
            for e in range(self.K):
                env2 = dict(env or {})
                env2[s.variable] = e
                inst.append((z3.BoolVal(True), self.value(s.sentence, u, env2)))
            return self.generalize(QUANT_KIND[s.quantifier.name], self.info['quant'], inst)
        raise NotImplementedError(t)

    def des(self, s, u=0):
        return self.S.is_des(self.which, self.value(s, u))

    def sat_node(self, node):
        'z3 Bool: the interpretation satisfies the tableau node.'
        get = node.get
        if get('world1') is not None and get('world2') is not None:
            return self.R(self.wden(node['world1']), self.wden(node['world2']))
        s = get('sentence')
        if s is None:
            return z3.BoolVal(True)
        u = self.wden(get('world'))
        d = get('designated')
        des = self.S.is_des(self.which, self.value(s, u))
        if d is None or d is True:
            return des
        return z3.Not(des)

    def sat_nodes(self, nodes):
        return z3.And(*[self.sat_node(n) for n in nodes]) if nodes else z3.BoolVal(True)

    def _identity_constraints(self):
        'identity: reflexive, symmetric, transitive; extensions are congruent'
        from pytableaux.lang import Predicate as _P
        T = self.S.idx['T']
        ident = _P.Identity
        out = []
        K = self.K

        def Id(a, b, w):
            return self._val(('P', ident.spec, (a, b), w)) == T
        for w in range(self.W):
            for a in range(K):
                out.append(Id(a, a, w))
                for b in range(K):
                    out.append(z3.Implies(Id(a, b, w), Id(b, a, w)))
                    for c in range(K):
                        out.append(z3.Implies(z3.And(Id(a, b, w), Id(b, c, w)), Id(a, c, w)))
            for (pspec, arity) in sorted(self._preds_used):
                for tup in itertools.product(range(K), repeat=arity):
                    for pos in range(arity):
                        for b in range(K):
                            if b == tup[pos]:
                                continue
                            other = tup[:pos] + (b,) + tup[pos + 1:]
                            out.append(z3.Implies(
                                Id(tup[pos], b, w),
                                self._val(('P', pspec, tup, w)) == self._val(('P', pspec, other, w))))
        return out

    def constraints(self):
        if self.info['classical'] and self._identity_used:
            ident = self._identity_constraints()    # may create variables (domain constraints)
            return list(self.cons) + ident
        return list(self.cons)

    def describe(self, model):
        'Readable rendering of the interpretation under a z3 model.'
        out = {}
        for key, var in self.vars.items():
            v = model.eval(var, model_completion=True)
            if key[0] == 'R':
                if z3.is_true(v):
                    out.setdefault('R', []).append([key[1], key[2]])
            elif key[0] in ('den', 'wden'):
                out.setdefault(key[0], {})[str(key[1])] = v.as_long()
            else:
                out.setdefault(key[0], {})[str(key[1:])] = self.S.names[v.as_long()]
        return out
