"""Helpers to run the real lexical constructors on symbolic coordinates.

Two things are needed besides the proxies of `pysymex`:

* **hash abstraction** -- a lexical item built from `SymInt` coordinates hashes
  to a constant, an item built from real ints hashes to `hash(sort_tuple)`.
  A hash-based lookup would therefore never compare a symbolic item with a
  concrete one, i.e. silently treat them as different.  While a harness with
  symbolic coordinates runs, `__hash__` of every lexical class is replaced by
  the *type rank* (always concrete).  A dict/set lookup then finds a key iff
  some stored key `==` it, which is what the real hash gives whenever equal
  items have equal hashes -- and that is exactly the hash-consistency part of
  property C14, which is checked separately on the real `hashitem`.  The
  abstraction is listed as a stub in the evidence of every check that uses it.

* **cache reset** -- the hash-consing cache of `LexicalAbcMeta.__call__` must be
  empty at the start of every path, otherwise a replayed prefix meets objects
  created by the previous path (replay divergence).
"""
from __future__ import annotations

import z3

from pytableaux.lang import lex
from pytableaux.lang.lex import (Atomic, Constant, LexicalAbcMeta, Predicate,
                                 Variable)

from .pysymex import SymInt

_cache = LexicalAbcMeta.__call__._cache

_CLASSES = (
    lex.LexicalAbc, lex.CoordsItem, lex.Parameter, lex.Sentence,
    lex.Predicate, lex.Constant, lex.Variable, lex.Atomic,
    lex.Predicated, lex.Quantified, lex.Operated)

_saved: dict = {}


def reset_cache():
    _cache.queue.clear()
    _cache.idx.clear()
    _cache.rev.clear()


def _rank_hash(self):
    return self.TYPE.rank


def install_hash_abstraction():
    if _saved:
        return
    for cls in _CLASSES:
        _saved[cls] = cls.__dict__.get('__hash__', None)
        type.__setattr__(cls, '__hash__', _rank_hash)


def remove_hash_abstraction():
    for cls, old in _saved.items():
        if old is None:
            type.__delattr__(cls, '__hash__')
        else:
            type.__setattr__(cls, '__hash__', old)
    _saved.clear()


class Symbols:
    """Factory of symbolic lexical symbols and of their preconditions.

    Every symbol is `(index, subscript)` with `0 <= index <= maxi` and
    `subscript >= 0`; symbols of one sort created through the same factory
    are pairwise distinct unless `distinct=False`.
    """

    def __init__(self, distinct=True, max_subscript=None):
        self.distinct = distinct
        self.max_subscript = max_subscript
        self.pre: list = []
        self.vars: dict[str, tuple] = {}
        self._bysort: dict[str, list] = {}

    def _coords(self, sort, name, maxi):
        i = z3.Int(f'{name}_i')
        s = z3.Int(f'{name}_s')
        self.pre += [i >= 0, i <= maxi, s >= 0]
        if self.max_subscript is not None:
            self.pre.append(s <= self.max_subscript)
        if self.distinct:
            for (oi, os_) in self._bysort.get(sort, ()):
                self.pre.append(z3.Or(i != oi, s != os_))
        self._bysort.setdefault(sort, []).append((i, s))
        self.vars[name] = (i, s)
        return SymInt(i), SymInt(s)

    def constant(self, name):
        return Constant(*self._coords('c', name, 3))

    def variable(self, name):
        return Variable(*self._coords('v', name, 3))

    def atomic(self, name):
        return Atomic(*self._coords('a', name, 4))

    def predicate(self, name, arity):
        i, s = self._coords('p', name, 3)
        return Predicate(i, s, arity)

    def concrete(self, model):
        'name -> (index, subscript) under a z3 model.'
        out = {}
        for name, (i, s) in self.vars.items():
            out[name] = (
                model.eval(i, model_completion=True).as_long(),
                model.eval(s, model_completion=True).as_long())
        return out
