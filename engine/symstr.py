"""Symbolic input text for pysymex: a string of fixed length n whose
characters are drawn from a stated alphabet.

A character stays symbolic until something hashes or compares it (the parse
table lookup); at that moment it is fixed by an n-ary symbolic pick over the
alphabet (no solver call: the variable is otherwise unconstrained).  Characters
the parser never looks at stay symbolic, so one path covers every continuation
of an input that was rejected early.
"""
from __future__ import annotations

import z3

from .pysymex import current


class SymChar:
    __slots__ = ('e', 'alpha', 'conc', 'name')

    def __init__(self, name, alpha):
        self.name = name
        self.e = z3.Int(name)
        self.alpha = alpha
        self.conc = None

    def concretize(self):
        if self.conc is None:
            i = current().pick(len(self.alpha), self.name, term=self.e)
            self.conc = self.alpha[i]
        return self.conc

    def __hash__(self):
        return hash(self.concretize())

    def __eq__(self, o):
        if isinstance(o, SymChar):
            o = o.concretize()
        return self.concretize() == o

    def __ne__(self, o):
        return not self.__eq__(o)

    def __str__(self):
        return self.concretize()

    def __format__(self, spec):
        return format(self.concretize(), spec)

    def __repr__(self):
        return f'SymChar({self.conc or "?"})'


class SymStr:
    'Fixed-length symbolic string.  Supports len(), integer indexing, iteration.'

    def __init__(self, chars):
        self.chars = list(chars)

    @classmethod
    def fresh(cls, n, alpha, prefix='c', head=()):
        """n symbolic characters; `head` fixes the first characters (used to
        partition the exploration over worker processes)."""
        chars = []
        for i in range(n):
            if i < len(head):
                chars.append(head[i])
            else:
                chars.append(SymChar(f'{prefix}{i}', alpha))
        return cls(chars)

    def __len__(self):
        return len(self.chars)

    def __getitem__(self, i):
        if isinstance(i, slice):
            return SymStr(self.chars[i])
        return self.chars[i]

    def __iter__(self):
        return iter(self.chars)

    def witness(self, fill):
        'concrete text: characters never looked at are replaced by `fill`'
        return ''.join((c if isinstance(c, str) else (c.conc if c.conc is not None else fill))
                       for c in self.chars)

    def read_mask(self):
        return ''.join('x' if (isinstance(c, str) or c.conc is not None) else '?' for c in self.chars)

    def __repr__(self):
        return f'SymStr({self.witness("?")!r})'
