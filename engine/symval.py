"""`SymVal`: a symbolic truth value of one logic for pysymex.

The z3 term is the *index* of the value in `Meta.values` (ascending numeric
order, so index order is the numeric order the code compares with `<`, `min`,
`max`).  Comparisons with other symbolic values, enum members, value names
and numbers build z3 terms; anything that needs a real member (`hash`, enum
lookup `values[a]`, `//`, `.name`, `.value`, `str`) forks over the <= 4
members ("concretisation"), after which the path condition pins the value.

Proxies cannot see `is`.  The model code uses `is` on truth values only in the
consistency guards of the setters (`set_opaque_value`, `set_atomic_value`,
`PredicateInterpretation.__setitem__`); symbolic values are therefore placed
into the frames directly and never routed through a setter.
"""
from __future__ import annotations

import z3

from .pysymex import HarnessError, SymBool, current


class SymVal:
    __slots__ = ('e', 'members')

    def __init__(self, e, members):
        self.e = e
        self.members = list(members)   # Mval members in ascending order

    # -- helpers -----------------------------------------------------------
    def _index_of(self, o):
        'z3 Int term of the index of `o`, or None if not a value of the logic'
        if isinstance(o, SymVal):
            return o.e
        for i, m in enumerate(self.members):
            if o is m:
                return z3.IntVal(i)
        if isinstance(o, str):
            for i, m in enumerate(self.members):
                if m.name == o:
                    return z3.IntVal(i)
            return None
        if isinstance(o, (int, float)) and not isinstance(o, bool):
            for i, m in enumerate(self.members):
                if m.value == o:
                    return z3.IntVal(i)
            return None
        return None

    def _num(self):
        'numeric (float) value as a z3 Real term'
        r = z3.RealVal(str(self.members[-1].value))
        for i in range(len(self.members) - 2, -1, -1):
            r = z3.If(self.e == i, z3.RealVal(str(self.members[i].value)), r)
        return r

    def _cmp(self, o, op):
        t = self._index_of(o)
        if t is not None:
            return SymBool(op(self.e, t))
        if isinstance(o, (int, float)) and not isinstance(o, bool):
            return SymBool(op(self._num(), z3.RealVal(str(float(o)))))
        return NotImplemented

    def __eq__(self, o):
        t = self._index_of(o)
        if t is None:
            if isinstance(o, (int, float)) and not isinstance(o, bool):
                return False
            if isinstance(o, str):
                return False
            return NotImplemented
        return SymBool(self.e == t)

    def __ne__(self, o):
        r = self.__eq__(o)
        if r is NotImplemented:
            return r
        if isinstance(r, bool):
            return not r
        return SymBool(z3.Not(r.e))

    def __lt__(self, o):
        return self._cmp(o, lambda a, b: a < b)

    def __le__(self, o):
        return self._cmp(o, lambda a, b: a <= b)

    def __gt__(self, o):
        return self._cmp(o, lambda a, b: a > b)

    def __ge__(self, o):
        return self._cmp(o, lambda a, b: a >= b)

    # -- concretisation -------------------------------------------------------
    def concretize(self):
        ex = current()
        if z3.is_int_value(self.e):
            return self.members[self.e.as_long()]
        n = len(self.members)
        for i in range(n - 1):
            if ex.decide(self.e == i):
                return self.members[i]
        # last member: implied by the domain constraint
        ex.decide(self.e == n - 1)
        return self.members[n - 1]

    def __hash__(self):
        return hash(self.concretize())

    def __floordiv__(self, o):
        return self.concretize() // o

    def __float__(self):
        return float(self.concretize())

    @property
    def name(self):
        return self.concretize().name

    @property
    def value(self):
        return self.concretize().value

    def __str__(self):
        return f'<{self.e}>'

    __repr__ = __str__

    def __bool__(self):
        raise HarnessError('truth value used as a boolean')


def term_of(x, members):
    'z3 Int index term of a result (SymVal or concrete member)'
    if isinstance(x, SymVal):
        return x.e
    for i, m in enumerate(members):
        if x is m or x == m.name:
            return z3.IntVal(i)
    raise HarnessError(f'not a truth value: {x!r}')
